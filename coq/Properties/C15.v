(* C15 - Encoding then decoding (and decoding then encoding) is the identity. *)
From Ctap Require Import Base Schema Wire Utf8 Typed Procs Inst Tables Limits WireP TypedP FramingP ObSerRole ObDeRole.
Local Open Scope string_scope.
Local Open Scope Z_scope.

(* which types can be both encoded and decoded: computed from the derives regenerated from /repo,
   equal to the specification's list in every feature configuration *)
Definition same_set (a b : list string) : bool :=
  forallb (fun x => smem x b) a && forallb (fun x => smem x a) b.
Theorem c15_bidirectional_set :
  forallb (fun f => same_set (bidirectional (gen_env f)) (spec_bidirectional f)) all_feats = true.
Proof. vm_compute. reflexivity. Qed.

(* both directions are derived from the same member list: the regenerated declarations equal the
   specification tables in both roles *)
Theorem c15_generated_ser : forallb (fun f => env_conforms_role decl_ser (gen_env f) (spec_env f)) all_feats = true.
Proof. exact generated_ser_role. Qed.
Theorem c15_generated_de : forallb (fun f => env_conforms_role decl_de (gen_env f) (spec_env f)) all_feats = true.
Proof. exact generated_de_role. Qed.

(* string-valued enumerations: the two hand-written match tables are mutually inverse *)
Definition str_enum_inverse (d : decl) : bool :=
  match d with
  | DStrEnum _ _ into tf =>
      forallb (fun p => match lookup_tryfrom (bytes_of_string (snd p)) tf with
                        | Some v => String.eqb v (fst p) | None => false end) into
      && forallb (fun p => match lookup_into (snd p) into with
                           | Some s => String.eqb s (fst p) | None => false end) tf
  | _ => true
  end.
Theorem c15_string_enums_inverse :
  forallb (fun f => forallb (fun p => str_enum_inverse (snd p)) (spec_env f)) all_feats = true.
Proof. vm_compute. reflexivity. Qed.

(* number-valued enumerations: discriminants are pairwise distinct, so value -> number -> value is the identity *)
Fixpoint nodup_z (l : list Z) : bool :=
  match l with [] => true | x :: r => negb (zmem x r) && nodup_z r end.
Theorem c15_repr_enums_injective :
  forallb (fun f => forallb (fun p => match snd p with DRepr _ _ _ vs => nodup_z (map snd vs) | _ => true end) (spec_env f)) all_feats = true.
Proof. vm_compute. reflexivity. Qed.

(* leaves: what the writer emits, the reader returns - for every value of the type *)
Theorem c15_head_roundtrip : forall maj v r, 0 <= v < 18446744073709551616 ->
  raw_u64 maj (put_head maj v ++ r)%list = Ok (v, r).
Proof. exact raw_u64_put_head. Qed.
Theorem c15_bytes_roundtrip : forall e k n b r, blen b <= n -> n < 4294967296 ->
  dec e (S k) (TBytesCap n) (ser_bytes b ++ r)%list = Ok (VBytes b, r).
Proof.
  intros e k n b r Hb Hn. rewrite dec_bytes_cap_exact by Lia.lia.
  destruct (n <? blen b) eqn:E; [apply Z.ltb_lt in E; Lia.lia|reflexivity].
Qed.
Theorem c15_text_roundtrip : forall e k n s r, blen s <= n -> n < 4294967296 -> utf8_valid s = true ->
  dec e (S k) (TStrCap n) (ser_text s ++ r)%list = Ok (VStr s, r).
Proof.
  intros e k n s r Hs Hn Hu. rewrite dec_strcap_exact by (try Lia.lia; exact Hu).
  destruct (n <? blen s) eqn:E; [apply Z.ltb_lt in E; Lia.lia|reflexivity].
Qed.
Theorem c15_i32_roundtrip : forall e k z r, -2147483648 <= z <= 2147483647 ->
  dec e (S k) TI32 (ser_int z ++ r)%list = Ok (VZ z, r).
Proof. exact dec_i32_exact. Qed.

Eval vm_compute in "ASSUMPTIONS c15_bidirectional_set". Print Assumptions c15_bidirectional_set.
Eval vm_compute in "ASSUMPTIONS c15_generated_ser". Print Assumptions c15_generated_ser.
Eval vm_compute in "ASSUMPTIONS c15_generated_de". Print Assumptions c15_generated_de.
Eval vm_compute in "ASSUMPTIONS c15_string_enums_inverse". Print Assumptions c15_string_enums_inverse.
Eval vm_compute in "ASSUMPTIONS c15_repr_enums_injective". Print Assumptions c15_repr_enums_injective.
Eval vm_compute in "ASSUMPTIONS c15_head_roundtrip". Print Assumptions c15_head_roundtrip.
Eval vm_compute in "ASSUMPTIONS c15_bytes_roundtrip". Print Assumptions c15_bytes_roundtrip.
Eval vm_compute in "ASSUMPTIONS c15_text_roundtrip". Print Assumptions c15_text_roundtrip.
Eval vm_compute in "ASSUMPTIONS c15_i32_roundtrip". Print Assumptions c15_i32_roundtrip.
