(* C15 - Encoding then decoding (and decoding then encoding) is the identity. *)
From Ctap Require Import Base Schema Wire Utf8 Typed WellTyped Procs Inst Tables Limits WireP TypedP FramingP SerP RoundTripP ObSerRole ObDeRole ObEnvRt FnShapes Shapes ObShapeFilters Deps ObDeps ObShapeRequest ObShapeStrings ObShapeResponse ObShapeAccessors ObShapeTablesReq ObShapeTablesInfo.
Local Open Scope string_scope.
Local Open Scope Z_scope.

(* which types can be both encoded and decoded: computed from the derives regenerated from /repo,
   equal to the specification's list in every feature configuration *)
Definition same_set (a b : list string) : bool :=
  forallb (fun x => smem x b) a && forallb (fun x => smem x a) b.
Theorem c15_bidirectional_set :
  forallb (fun f => same_set (bidirectional (gen_env f)) (spec_bidirectional f)) all_feats = true.
Proof. vm_compute. reflexivity. Qed.

(* both directions are derived from the same member list: the regenerated declarations equal the
   specification tables in both roles *)
Theorem c15_generated_ser : forallb (fun f => env_conforms_role decl_ser (gen_env f) (spec_env f)) all_feats = true.
Proof. exact generated_ser_role. Qed.
Theorem c15_generated_de : forallb (fun f => env_conforms_role decl_de (gen_env f) (spec_env f)) all_feats = true.
Proof. exact generated_de_role. Qed.

(* string-valued enumerations: the two hand-written match tables are mutually inverse *)
Definition str_enum_inverse (d : decl) : bool :=
  match d with
  | DStrEnum _ _ into tf =>
      forallb (fun p => match lookup_tryfrom (bytes_of_string (snd p)) tf with
                        | Some v => String.eqb v (fst p) | None => false end) into
      && forallb (fun p => match lookup_into (snd p) into with
                           | Some s => String.eqb s (fst p) | None => false end) tf
  | _ => true
  end.
Theorem c15_string_enums_inverse :
  forallb (fun f => forallb (fun p => str_enum_inverse (snd p)) (spec_env f)) all_feats = true.
Proof. vm_compute. reflexivity. Qed.

(* number-valued enumerations: discriminants are pairwise distinct, so value -> number -> value is the identity *)
Theorem c15_repr_enums_injective :
  forallb (fun f => forallb (fun p => match snd p with DRepr _ _ _ vs => nodup_z (map snd vs) | _ => true end) (spec_env f)) all_feats = true.
Proof. vm_compute. reflexivity. Qed.

(* leaves: what the writer emits, the reader returns - for every value of the type *)
Theorem c15_head_roundtrip : forall maj v r, 0 <= v < 18446744073709551616 ->
  raw_u64 maj (put_head maj v ++ r)%list = Ok (v, r).
Proof. exact raw_u64_put_head. Qed.
Theorem c15_bytes_roundtrip : forall e k n b r, blen b <= n -> n < 4294967296 ->
  dec e (S k) (TBytesCap n) (ser_bytes b ++ r)%list = Ok (VBytes b, r).
Proof.
  intros e k n b r Hb Hn. rewrite dec_bytes_cap_exact by Lia.lia.
  destruct (n <? blen b) eqn:E; [apply Z.ltb_lt in E; Lia.lia|reflexivity].
Qed.
Theorem c15_text_roundtrip : forall e k n s r, blen s <= n -> n < 4294967296 -> utf8_valid s = true ->
  dec e (S k) (TStrCap n) (ser_text s ++ r)%list = Ok (VStr s, r).
Proof.
  intros e k n s r Hs Hn Hu. rewrite dec_strcap_exact by (try Lia.lia; exact Hu).
  destruct (n <? blen s) eqn:E; [apply Z.ltb_lt in E; Lia.lia|reflexivity].
Qed.
Theorem c15_i32_roundtrip : forall e k z r, -2147483648 <= z <= 2147483647 ->
  dec e (S k) TI32 (ser_int z ++ r)%list = Ok (VZ z, r).
Proof. exact dec_i32_exact. Qed.

(* ROUND TRIP OF THE TYPED CODEC.  For every environment e whose declarations are well-formed (env_rt: a
   boolean over the declaration tables - member keys and labels pairwise distinct, keys in range, every
   text key resolves to its own member, enumerations' two tables mutually inverse on what they emit ...),
   every type t and every value v that is well-typed for t (wt: capacities and integer ranges respected,
   text valid UTF-8, optional members None or Some, any subset of optional members present), decoding the
   encoding of v followed by ANY bytes returns exactly v and exactly those bytes.  No bound on the size of
   the value, on nesting, or on which optional members are set. *)
Theorem c15_decode_encode : forall e t v b rest, env_rt e = true ->
  wt e type_fuel t v = true -> encode e t v = Some b -> decode e t (b ++ rest)%list = Ok (v, rest).
Proof. exact decode_encode. Qed.

(* bytes -> value -> bytes on canonical bytes (the encodings of well-typed values) reproduces the bytes *)
Theorem c15_encode_decode : forall e t v b, env_rt e = true ->
  wt e type_fuel t v = true -> encode e t v = Some b ->
  exists v', decode e t b = Ok (v', []) /\ encode e t v' = Some b.
Proof. exact encode_decode. Qed.

(* no member is lost or renumbered in one direction only: distinct values have distinct encodings, and no
   encoding is a proper prefix of another *)
Theorem c15_encode_injective : forall e t v1 v2 b1 b2 x1 x2, env_rt e = true ->
  wt e type_fuel t v1 = true -> wt e type_fuel t v2 = true ->
  encode e t v1 = Some b1 -> encode e t v2 = Some b2 -> (b1 ++ x1 = b2 ++ x2)%list -> v1 = v2 /\ x1 = x2.
Proof. exact encode_injective. Qed.

(* the declarations are well-formed in every feature configuration: specification tables, and the
   declarations regenerated from /repo (obligation on the current source) *)
Theorem c15_spec_declarations_wellformed : forallb (fun f => env_rt (spec_env f)) all_feats = true.
Proof. vm_compute. reflexivity. Qed.
Theorem c15_generated_declarations_wellformed : forallb (fun f => env_rt (gen_env f)) all_feats = true.
Proof. exact generated_env_rt. Qed.

(* instantiated: the crate's declarations, any feature set *)
Theorem c15_roundtrip_all_features : forall f t v b rest, In f all_feats ->
  wt (gen_env f) type_fuel t v = true -> encode (gen_env f) t v = Some b ->
  decode (gen_env f) t (b ++ rest)%list = Ok (v, rest).
Proof.
  intros f t v b rest Hf. apply decode_encode.
  exact (forallb_In (fun f => env_rt (gen_env f)) all_feats f generated_env_rt Hf).
Qed.

(* the hypotheses are satisfiable by non-trivial values: a ClientPin request carrying a key-agreement key,
   a PIN hash and a permissions mask is well-typed *)
Definition ex_client_pin : val :=
  VRec [("pin_protocol", VZ 1); ("sub_command", VEnum "GetPinToken");
        ("key_agreement", VSome (VRec [("x", VBytes (repeat 7 32)); ("y", VBytes (repeat 9 32))]));
        ("pin_auth", VNone); ("new_pin_enc", VNone); ("pin_hash_enc", VSome (VBytes (repeat 1 16)));
        ("_placeholder07", VNone); ("_placeholder08", VNone);
        ("permissions", VSome (VZ 5)); ("rp_id", VSome (VStr (bytes_of_string "example.org")))].
Example c15_example_in_domain :
  wt (spec_env []) type_fuel (TNamed "ctap2::client_pin::Request") ex_client_pin = true.
Proof. vm_compute. reflexivity. Qed.

(* tie to the source for the hand-modelled procedural code: the bodies of these functions, as regenerated from
   /repo now, have the shape (literals, operators, calls, control flow, constants) the model was written against *)
Theorem c15_modelled_functions_unchanged_filters : shapes_hold fn_shapes shapes_filters = true.
Proof. exact generated_shapes_filters. Qed.

(* the third-party crates the model represents by hand are pinned at the versions it was written against *)
Theorem c15_modelled_dependencies_pinned : deps_hold repo_lock_present lock_versions harness_lock_versions cargo_deps = true.
Proof. exact generated_deps. Qed.

(* further hand-modelled functions this property rests on *)
Theorem c15_modelled_functions_unchanged_request : shapes_hold fn_shapes shapes_request = true.
Proof. exact generated_shapes_request. Qed.
Theorem c15_modelled_functions_unchanged_strings : shapes_hold fn_shapes shapes_strings = true.
Proof. exact generated_shapes_strings. Qed.
Theorem c15_modelled_functions_unchanged_response : shapes_hold fn_shapes shapes_response = true.
Proof. exact generated_shapes_response. Qed.

(* lookup tables, accessors, builders and further generators this property rests on *)
Theorem c15_modelled_functions_unchanged_accessors : shapes_hold fn_shapes shapes_accessors = true.
Proof. exact generated_shapes_accessors. Qed.

Theorem c15_modelled_functions_unchanged_tables_req : shapes_hold fn_shapes shapes_tables_req = true.
Proof. exact generated_shapes_tables_req. Qed.
Theorem c15_modelled_functions_unchanged_tables_info : shapes_hold fn_shapes shapes_tables_info = true.
Proof. exact generated_shapes_tables_info. Qed.

(* the cargo features are independent switches with nothing on by default: a feature set of the model means exactly its cfgs *)
Theorem c15_feature_table_unchanged : features_hold cargo_features = true.
Proof. exact generated_features. Qed.

Eval vm_compute in "ASSUMPTIONS c15_bidirectional_set". Print Assumptions c15_bidirectional_set.
Eval vm_compute in "ASSUMPTIONS c15_generated_ser". Print Assumptions c15_generated_ser.
Eval vm_compute in "ASSUMPTIONS c15_generated_de". Print Assumptions c15_generated_de.
Eval vm_compute in "ASSUMPTIONS c15_string_enums_inverse". Print Assumptions c15_string_enums_inverse.
Eval vm_compute in "ASSUMPTIONS c15_repr_enums_injective". Print Assumptions c15_repr_enums_injective.
Eval vm_compute in "ASSUMPTIONS c15_head_roundtrip". Print Assumptions c15_head_roundtrip.
Eval vm_compute in "ASSUMPTIONS c15_bytes_roundtrip". Print Assumptions c15_bytes_roundtrip.
Eval vm_compute in "ASSUMPTIONS c15_text_roundtrip". Print Assumptions c15_text_roundtrip.
Eval vm_compute in "ASSUMPTIONS c15_i32_roundtrip". Print Assumptions c15_i32_roundtrip.
Eval vm_compute in "ASSUMPTIONS c15_decode_encode". Print Assumptions c15_decode_encode.
Eval vm_compute in "ASSUMPTIONS c15_encode_decode". Print Assumptions c15_encode_decode.
Eval vm_compute in "ASSUMPTIONS c15_encode_injective". Print Assumptions c15_encode_injective.
Eval vm_compute in "ASSUMPTIONS c15_spec_declarations_wellformed". Print Assumptions c15_spec_declarations_wellformed.
Eval vm_compute in "ASSUMPTIONS c15_generated_declarations_wellformed". Print Assumptions c15_generated_declarations_wellformed.
Eval vm_compute in "ASSUMPTIONS c15_roundtrip_all_features". Print Assumptions c15_roundtrip_all_features.
Eval vm_compute in "ASSUMPTIONS c15_example_in_domain". Print Assumptions c15_example_in_domain.
Eval vm_compute in "ASSUMPTIONS c15_modelled_functions_unchanged_filters". Print Assumptions c15_modelled_functions_unchanged_filters.
Eval vm_compute in "ASSUMPTIONS c15_modelled_dependencies_pinned". Print Assumptions c15_modelled_dependencies_pinned.
Eval vm_compute in "ASSUMPTIONS c15_modelled_functions_unchanged_request". Print Assumptions c15_modelled_functions_unchanged_request.
Eval vm_compute in "ASSUMPTIONS c15_modelled_functions_unchanged_strings". Print Assumptions c15_modelled_functions_unchanged_strings.
Eval vm_compute in "ASSUMPTIONS c15_modelled_functions_unchanged_response". Print Assumptions c15_modelled_functions_unchanged_response.
Eval vm_compute in "ASSUMPTIONS c15_modelled_functions_unchanged_accessors". Print Assumptions c15_modelled_functions_unchanged_accessors.
Eval vm_compute in "ASSUMPTIONS c15_modelled_functions_unchanged_tables_req". Print Assumptions c15_modelled_functions_unchanged_tables_req.
Eval vm_compute in "ASSUMPTIONS c15_modelled_functions_unchanged_tables_info". Print Assumptions c15_modelled_functions_unchanged_tables_info.
Eval vm_compute in "ASSUMPTIONS c15_feature_table_unchanged". Print Assumptions c15_feature_table_unchanged.
