(* C12 - Size and range limits are exact; accepted values are never altered to fit. *)
From Ctap Require Import Base Schema Wire Utf8 Typed WellTyped Procs Inst Tables Limits WireP TypedP FramingP SerP RoundTripP ObRequestSide ObEnvRt FnShapes Shapes ObShapeStrings ObShapeFilters Within LimitsP Deps ObDeps ObShapeRequest.
Local Open Scope string_scope.
Local Open Scope Z_scope.

(* the declared capacity / width of every bounded request member, regenerated from /repo, is the limit
   the property lists, in every feature configuration *)
Theorem c12_limits_generated : forallb (fun f => limits_hold (gen_env f)) all_feats = true.
Proof. vm_compute. reflexivity. Qed.
Theorem c12_limits_spec : forallb (fun f => limits_hold (spec_env f)) all_feats = true.
Proof. vm_compute. reflexivity. Qed.

(* byte strings: accepted up to exactly the capacity and delivered whole, rejected beyond (any
   capacity n, any content, any continuation r of the input; 2^32 is the reader's length limit) *)
Theorem c12_bytes_exact : forall e k n b r, blen b < 4294967296 ->
  dec e (S k) (TBytesCap n) (ser_bytes b ++ r)%list =
    if n <? blen b then Err SerdeDeCustom else Ok (VBytes b, r).
Proof. exact dec_bytes_cap_exact. Qed.

(* exact-length byte arrays (relying-party id hash: exactly 32) *)
Theorem c12_byte_array_exact : forall e k n b r, blen b < 4294967296 ->
  dec e (S k) (TByteArrRef n) (ser_bytes b ++ r)%list =
    if blen b =? n then Ok (VBytes b, r) else Err SerdeDeCustom.
Proof. exact dec_bytearrref_exact. Qed.

(* text strings with a capacity *)
Theorem c12_text_exact : forall e k n s r, blen s < 4294967296 -> utf8_valid s = true ->
  dec e (S k) (TStrCap n) (ser_text s ++ r)%list =
    if n <? blen s then Err SerdeDeCustom else Ok (VStr s, r).
Proof. exact dec_strcap_exact. Qed.

(* unbounded zero-copy members deliver everything *)
Theorem c12_borrowed_unaltered : forall e k b r, blen b < 4294967296 ->
  dec e (S k) TBytesRef (ser_bytes b ++ r)%list = Ok (VBytes b, r).
Proof. exact dec_bytesref_exact. Qed.

(* integers: every value up to the type maximum comes back unchanged, the next larger one is rejected;
   nothing is wrapped, sign-changed or clamped *)
Theorem c12_u8_exact : forall e k v r, 0 <= v < 18446744073709551616 ->
  dec e (S k) TU8 (put_head 0 v ++ r)%list = if v <=? 255 then Ok (VZ v, r) else Err BadU8.
Proof. exact dec_u8_exact. Qed.
Theorem c12_u32_exact : forall e k v r, 0 <= v < 18446744073709551616 ->
  dec e (S k) TU32 (put_head 0 v ++ r)%list = if v <=? 4294967295 then Ok (VZ v, r) else Err BadU32.
Proof. exact dec_u32_exact. Qed.
Theorem c12_i32_exact : forall e k z r, -2147483648 <= z <= 2147483647 ->
  dec e (S k) TI32 (ser_int z ++ r)%list = Ok (VZ z, r).
Proof. exact dec_i32_exact. Qed.
Theorem c12_i32_out_of_range : forall e k z r, 2147483647 < z < 4294967296 ->
  dec e (S k) TI32 (ser_int z ++ r)%list = Err BadI32 /\
  dec e (S k) TI32 (ser_int (-1 - z) ++ r)%list = Err BadI32.
Proof. exact dec_i32_out_of_range. Qed.

(* counted members (allow list 10, exclude list 16, ...): a list of ANY well-typed elements is delivered whole,
   element for element, when its count is at most the capacity N; with a count above N it is rejected as
   soon as the (N+1)-th element has been read, whatever follows *)
Theorem c12_count_exact : forall e k u cap l,
  env_rt e = true -> forallb (wt e k u) l = true -> 0 <= cap ->
  forall body, concat_opt (map (ser e k u) l) = Some body ->
  (blen l <= cap -> blen l < lim32 -> forall rest,
     dec e (S k) (TVec u cap) (put_head 4 (blen l) ++ body ++ rest)%list = Ok (VList l, rest)) /\
  (blen l = cap + 1 -> forall n rest, blen l <= n < lim32 ->
     dec e (S k) (TVec u cap) (put_head 4 n ++ body ++ rest)%list = Err SerdeDeCustom).
Proof. exact vec_count_exact. Qed.

(* "a value that is accepted is delivered whole": every well-typed value of every request type, in every
   feature configuration of the crate as it is now, comes back from the decoder exactly - no member
   shortened, wrapped, sign-changed or clamped *)
Theorem c12_accepted_values_unaltered : forall f t v b rest, In f all_feats ->
  wt (gen_env f) type_fuel t v = true -> encode (gen_env f) t v = Some b ->
  decode (gen_env f) t (b ++ rest)%list = Ok (v, rest).
Proof.
  intros f t v b rest Hf. apply decode_encode.
  exact (forallb_In (fun f => env_rt (gen_env f)) all_feats f generated_env_rt Hf).
Qed.

(* WHATEVER IS ACCEPTED IS WITHIN THE LIMITS - for EVERY input byte string, canonical or not, at the
   declarations regenerated from /repo in every feature configuration: byte strings and text never exceed
   their capacity (also after the lossy helpers), text is valid UTF-8, exact-length arrays have their length,
   integers lie in their type's range, lists never exceed their capacity, records list exactly the declared
   members, enumerations hold a declared variant, the filtered parameter list holds known algorithms only *)
Theorem c12_accepted_is_within_limits : forall f t i v r, In f all_feats ->
  bys i -> decode (gen_env f) t i = Ok (v, r) -> within (gen_env f) type_fuel t v = true.
Proof.
  intros f t i v r Hf. apply decode_within.
  exact (forallb_In (fun f => env_rt (gen_env f)) all_feats f generated_env_rt Hf).
Qed.
Theorem c12_accepted_is_within_limits_generic : forall e k t i v r, env_rt e = true -> bys i ->
  dec e k t i = Ok (v, r) -> within e k t v = true /\ bys r.
Proof. intros e k t i v r He Hb H. exact (dec_within e He k t i v r Hb H). Qed.

(* tie to the source *)
Theorem c12_generated_conforms :
  forallb (fun f => request_side_conforms (gen_env f) (spec_env f)) all_feats = true.
Proof. exact generated_request_side. Qed.

(* non-vacuity: the bytes 0xA2 01 0A 03 00 (a LargeBlobs request) are accepted and the value is within limits *)
Example c12_ex_within :
  match decode (gen_env []) (TNamed "ctap2::large_blobs::Request") [0xA2; 0x01; 0x0A; 0x03; 0x00] with
  | Ok (v, _) => within (gen_env []) type_fuel (TNamed "ctap2::large_blobs::Request") v = true
  | _ => False end.
Proof. vm_compute. reflexivity. Qed.

Example c12_ex : blen [1; 2; 3] < 4294967296 /\ (64 <? blen [1; 2; 3]) = false.
Proof. vm_compute. split; reflexivity. Qed.

(* tie to the source for the hand-modelled procedural code: the bodies of these functions, as regenerated from
   /repo now, have the shape (literals, operators, calls, control flow, constants) the model was written against *)
Theorem c12_modelled_functions_unchanged_strings : shapes_hold fn_shapes shapes_strings = true.
Proof. exact generated_shapes_strings. Qed.
Theorem c12_modelled_functions_unchanged_filters : shapes_hold fn_shapes shapes_filters = true.
Proof. exact generated_shapes_filters. Qed.

(* the third-party crates the model represents by hand are pinned at the versions it was written against *)
Theorem c12_modelled_dependencies_pinned : deps_hold repo_lock_present lock_versions harness_lock_versions cargo_deps = true.
Proof. exact generated_deps. Qed.

(* further hand-modelled functions this property rests on *)
Theorem c12_modelled_functions_unchanged_request : shapes_hold fn_shapes shapes_request = true.
Proof. exact generated_shapes_request. Qed.

(* the cargo features are independent switches with nothing on by default: a feature set of the model means exactly its cfgs *)
Theorem c12_feature_table_unchanged : features_hold cargo_features = true.
Proof. exact generated_features. Qed.

Eval vm_compute in "ASSUMPTIONS c12_limits_generated". Print Assumptions c12_limits_generated.
Eval vm_compute in "ASSUMPTIONS c12_limits_spec". Print Assumptions c12_limits_spec.
Eval vm_compute in "ASSUMPTIONS c12_bytes_exact". Print Assumptions c12_bytes_exact.
Eval vm_compute in "ASSUMPTIONS c12_byte_array_exact". Print Assumptions c12_byte_array_exact.
Eval vm_compute in "ASSUMPTIONS c12_text_exact". Print Assumptions c12_text_exact.
Eval vm_compute in "ASSUMPTIONS c12_borrowed_unaltered". Print Assumptions c12_borrowed_unaltered.
Eval vm_compute in "ASSUMPTIONS c12_u8_exact". Print Assumptions c12_u8_exact.
Eval vm_compute in "ASSUMPTIONS c12_u32_exact". Print Assumptions c12_u32_exact.
Eval vm_compute in "ASSUMPTIONS c12_i32_exact". Print Assumptions c12_i32_exact.
Eval vm_compute in "ASSUMPTIONS c12_i32_out_of_range". Print Assumptions c12_i32_out_of_range.
Eval vm_compute in "ASSUMPTIONS c12_generated_conforms". Print Assumptions c12_generated_conforms.
Eval vm_compute in "ASSUMPTIONS c12_count_exact". Print Assumptions c12_count_exact.
Eval vm_compute in "ASSUMPTIONS c12_accepted_values_unaltered". Print Assumptions c12_accepted_values_unaltered.
Eval vm_compute in "ASSUMPTIONS c12_modelled_functions_unchanged_strings". Print Assumptions c12_modelled_functions_unchanged_strings.
Eval vm_compute in "ASSUMPTIONS c12_modelled_functions_unchanged_filters". Print Assumptions c12_modelled_functions_unchanged_filters.
Eval vm_compute in "ASSUMPTIONS c12_accepted_is_within_limits". Print Assumptions c12_accepted_is_within_limits.
Eval vm_compute in "ASSUMPTIONS c12_accepted_is_within_limits_generic". Print Assumptions c12_accepted_is_within_limits_generic.
Eval vm_compute in "ASSUMPTIONS c12_modelled_dependencies_pinned". Print Assumptions c12_modelled_dependencies_pinned.
Eval vm_compute in "ASSUMPTIONS c12_modelled_functions_unchanged_request". Print Assumptions c12_modelled_functions_unchanged_request.
Eval vm_compute in "ASSUMPTIONS c12_feature_table_unchanged". Print Assumptions c12_feature_table_unchanged.
