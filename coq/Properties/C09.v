(* C09 - CTAP1/U2F responses are encoded in the U2F raw message layout. *)
From Ctap Require Import Base Schema Wire Typed Procs Inst Tables ProcTables Finite FramingP WireP LayoutP FnShapes Shapes ObShapeU2fSer Deps ObDeps PlainDecls ObPlainU2fResponses.
Local Open Scope string_scope.
Local Open Scope Z_scope.

(* the raw-message layout, part by part (U2F raw message formats 4.3, 5.4, 6) *)
Theorem c09_parts : forall h pk kh cert sig up count v,
  u2f_parts (U2fRegisterResp h pk kh cert sig) = [[h]; pk; [blen kh mod 256]; kh; cert; sig] /\
  u2f_parts (U2fAuthResp up count sig) = [[up]; be 4 count; sig] /\
  u2f_parts (U2fVersionResp v) = [v].
Proof. intros. repeat split; reflexivity. Qed.

(* with the declared capacity Bytes<255> the one-byte length is the key-handle length (the narrowing
   cast is exact BECAUSE the capacity is at most 255) *)
Theorem c09_length_byte_exact : forall kh : bytes, blen kh <= 255 -> blen kh mod 256 = blen kh.
Proof. intros kh H. pose proof (blen_nonneg kh). apply Z.mod_small. Lia.lia. Qed.

Theorem c09_generated_capacities :
  forallb (fun f => match find_struct_field_ty (strip f (raw_decls f)) "ctap1::register::Response" "key_handle" with
                    | Some (TBytesCap 255) => true | _ => false end
                    && match find_struct_field_ty (strip f (raw_decls f)) "ctap1::register::Response" "public_key" with
                       | Some (TBytesCap 65) => true | _ => false end
                    && match find_struct_field_ty (strip f (raw_decls f)) "ctap1::register::Response" "attestation_certificate" with
                       | Some (TBytesCap 1024) => true | _ => false end
                    && match find_struct_field_ty (strip f (raw_decls f)) "ctap1::register::Response" "signature" with
                       | Some (TBytesCap 72) => true | _ => false end
                    && match find_struct_field_ty (strip f (raw_decls f)) "ctap1::authenticate::Response" "signature" with
                       | Some (TBytesCap 72) => true | _ => false end) all_feats = true.
Proof. vm_compute. reflexivity. Qed.

(* for every response, capacity S and prior contents p: if everything fits, the call succeeds and the
   buffer is p followed by the parts - so the appended length is exactly the sum of the parts ... *)
Theorem c09_fits : forall r cap prior,
  blen prior + blen (List.concat (u2f_parts r)) <= cap ->
  u2f_serialize r cap prior = (true, prior ++ List.concat (u2f_parts r))%list.
Proof. intros. apply vpush_all_fits. assumption. Qed.

(* ... otherwise it reports failure, and the buffer holds p followed by whole leading parts only *)
Theorem c09_overflow : forall r cap prior,
  blen prior <= cap -> cap < blen prior + blen (List.concat (u2f_parts r)) ->
  exists k, (k < List.length (u2f_parts r))%nat /\
            u2f_serialize r cap prior = (false, prior ++ List.concat (firstn k (u2f_parts r)))%list.
Proof. intros. apply vpush_all_overflow; assumption. Qed.

(* what the buffer held before is never disturbed *)
Theorem c09_prior_kept : forall r cap prior,
  exists suffix, snd (u2f_serialize r cap prior) = (prior ++ suffix)%list.
Proof. intros. apply vpush_all_prefix_kept. Qed.

(* register::Response::new: 0x04 || x || y; never panics for coordinates within their declared capacity *)
Theorem c09_pubkey : forall x y, blen x <= 32 -> blen y <= 32 -> u2f_pubkey x y = Ok (4 :: x ++ y)%list.
Proof.
  intros x y Hx Hy. unfold u2f_pubkey. pose proof (blen_nonneg x). pose proof (blen_nonneg y).
  rewrite vpush_cases. cbn [blen List.length app]. 
  replace (blen [] + blen [4] <=? 65) with true by reflexivity. cbn [app].
  rewrite vpush_cases. replace (blen [4]) with 1 by reflexivity.
  destruct (1 + blen x <=? 65) eqn:E1; [|apply Z.leb_gt in E1; Lia.lia].
  rewrite vpush_cases. rewrite blen_app. replace (blen [4]) with 1 by reflexivity.
  destruct (1 + blen x + blen y <=? 65) eqn:E2; [|apply Z.leb_gt in E2; Lia.lia].
  reflexivity.
Qed.

Example c09_ex : u2f_serialize (U2fAuthResp 1 0x01020304 [9; 9]) 10 [0xEE] = (true, [0xEE; 1; 1; 2; 3; 4; 9; 9]).
Proof. vm_compute. reflexivity. Qed.

(* tie to the source for the hand-modelled procedural code: the bodies of these functions, as regenerated from
   /repo now, have the shape (literals, operators, calls, control flow, constants) the model was written against *)
Theorem c09_modelled_functions_unchanged_u2f_ser : shapes_hold fn_shapes shapes_u2f_ser = true.
Proof. exact generated_shapes_u2f_ser. Qed.

(* the third-party crates the model represents by hand are pinned at the versions it was written against *)
Theorem c09_modelled_dependencies_pinned : deps_hold repo_lock_present lock_versions harness_lock_versions cargo_deps = true.
Proof. exact generated_deps. Qed.

(* the plain structures (no serde meaning of their own) whose member types the model relies on *)
Theorem c09_plain_structures_unchanged_u2f_responses : plain_hold raw_decls plain_u2f_responses = true.
Proof. exact generated_plain_u2f_responses. Qed.

(* the cargo features are independent switches with nothing on by default: a feature set of the model means exactly its cfgs *)
Theorem c09_feature_table_unchanged : features_hold cargo_features = true.
Proof. exact generated_features. Qed.

Eval vm_compute in "ASSUMPTIONS c09_parts". Print Assumptions c09_parts.
Eval vm_compute in "ASSUMPTIONS c09_length_byte_exact". Print Assumptions c09_length_byte_exact.
Eval vm_compute in "ASSUMPTIONS c09_generated_capacities". Print Assumptions c09_generated_capacities.
Eval vm_compute in "ASSUMPTIONS c09_fits". Print Assumptions c09_fits.
Eval vm_compute in "ASSUMPTIONS c09_overflow". Print Assumptions c09_overflow.
Eval vm_compute in "ASSUMPTIONS c09_prior_kept". Print Assumptions c09_prior_kept.
Eval vm_compute in "ASSUMPTIONS c09_pubkey". Print Assumptions c09_pubkey.
Eval vm_compute in "ASSUMPTIONS c09_modelled_functions_unchanged_u2f_ser". Print Assumptions c09_modelled_functions_unchanged_u2f_ser.
Eval vm_compute in "ASSUMPTIONS c09_modelled_dependencies_pinned". Print Assumptions c09_modelled_dependencies_pinned.
Eval vm_compute in "ASSUMPTIONS c09_plain_structures_unchanged_u2f_responses". Print Assumptions c09_plain_structures_unchanged_u2f_responses.
Eval vm_compute in "ASSUMPTIONS c09_feature_table_unchanged". Print Assumptions c09_feature_table_unchanged.
