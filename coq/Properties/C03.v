(* C03 - Everything the authenticator emits is CTAP2 canonical CBOR. *)
From Ctap Require Import Base Schema Typed Inst Tables Canonical C03P.
Local Open Scope string_scope.
Local Open Scope Z_scope.

(* every pair of members of every serialisable map type is emitted in canonical key order, in every
   feature configuration (pairs suffice: members are emitted in declaration order for every subset,
   and a sublist of a pairwise-ordered list is pairwise ordered) *)
Theorem c03_decl_order_spec : forallb (fun f => decl_order_canonical (spec_env f)) all_feats = true.
Proof. exact spec_decl_order. Qed.

Theorem c03_cose_label_order : all_pairs key_lt cose_emit_order = true.
Proof. exact cose_order. Qed.

(* tie to the source *)
Theorem c03_generated_conforms :
  forallb (fun f => env_conforms_role decl_ser (gen_env f) (spec_env f)) all_feats = true.
Proof. exact generated_ser_conforms. Qed.

Theorem c03_generated_decl_order : forallb (fun f => decl_order_canonical (gen_env f)) all_feats = true.
Proof. exact generated_decl_order. Qed.

Eval vm_compute in "ASSUMPTIONS c03_decl_order_spec". Print Assumptions c03_decl_order_spec.
Eval vm_compute in "ASSUMPTIONS c03_cose_label_order". Print Assumptions c03_cose_label_order.
Eval vm_compute in "ASSUMPTIONS c03_generated_conforms". Print Assumptions c03_generated_conforms.
Eval vm_compute in "ASSUMPTIONS c03_generated_decl_order". Print Assumptions c03_generated_decl_order.
