(* C03 - Everything the authenticator emits is CTAP2 canonical CBOR. *)
From Ctap Require Import Base Schema Wire Typed Procs Inst Tables ProcTables Canonical WireP SerP FramingP C03P ObSerRole ObDeclOrder FnShapes Shapes ObShapeResponse ObShapeFilters Deps ObDeps ObShapeAuthdata ObShapeBuilders PlainDecls ObPlainAuthdata ObPlainBuilders.
Local Open Scope string_scope.
Local Open Scope Z_scope.

(* every pair of members of every serialisable map type is emitted in canonical key order, in every
   feature configuration (pairs suffice: members are emitted in declaration order for every subset,
   and a sublist of a pairwise-ordered list is pairwise ordered) *)
Theorem c03_decl_order_spec : forallb (fun f => decl_order_canonical (spec_env f)) all_feats = true.
Proof. exact spec_decl_order. Qed.

Theorem c03_cose_label_order : all_pairs key_lt cose_emit_order = true.
Proof. exact cose_order. Qed.

(* THE PROPERTY for the encoder: in every feature configuration, for EVERY type and EVERY value, whatever
   the typed encoder emits is canonical CBOR at every nesting level (predicate canon, Proofs/SerP.v: heads
   written by the shortest-head writer, definite lengths only, no tags / floats / undefined, map keys
   strictly increasing in canonical order - hence no duplicates) *)
Theorem c03_all_structs_ordered : forallb (fun f => structs_ordered (spec_env f)) all_feats = true.
Proof. vm_compute. reflexivity. Qed.

Theorem c03_encoder_canonical : forall f, In f all_feats ->
  forall t v b, encode (spec_env f) t v = Some b -> canon b.
Proof.
  intros f Hf. apply encode_canon.
  exact (forallb_In (fun f => structs_ordered (spec_env f)) all_feats f c03_all_structs_ordered Hf).
Qed.

(* every encoded response body (when it is not dropped as the empty map) and the extension map appended
   to authenticator data are outputs of that encoder *)
Theorem c03_response_body_canonical : forall f variant payload n prior t b, In f all_feats ->
  serialising spec_tables variant t -> encode (spec_env f) t payload = Some b -> blen b + 1 <= n ->
  response_serialize spec_tables (spec_env f) variant payload n prior = Ok (msg b) /\ canon b.
Proof.
  intros f variant payload n prior t b Hf Hs He Hn. split.
  - assert (1 <= n) by (pose proof (blen_nonneg b); Lia.lia).
    erewrite response_serialize_ser by eassumption.
    destruct (blen b <=? n - 1) eqn:E; [reflexivity|]. apply Z.leb_gt in E. Lia.lia.
  - eapply c03_encoder_canonical; eassumption.
Qed.

(* shortest heads at the five width thresholds *)
Theorem c03_shortest_heads : forall maj v, 0 <= v < 18446744073709551616 ->
  put_head maj v =
    if v <=? 23 then [maj * 32 + v]
    else if v <=? 255 then [maj * 32 + 24; v]
    else if v <=? 65535 then (maj * 32 + 25) :: be 2 v
    else if v <=? 4294967295 then (maj * 32 + 26) :: be 4 v
    else (maj * 32 + 27) :: be 8 v.
Proof. exact put_head_cases. Qed.

(* the same for the environment regenerated from /repo *)
Theorem c03_generated_structs_ordered : forallb (fun f => structs_ordered (gen_env f)) all_feats = true.
Proof. exact generated_structs_ordered. Qed.

(* tie to the source *)
Theorem c03_generated_conforms :
  forallb (fun f => env_conforms_role decl_ser (gen_env f) (spec_env f)) all_feats = true.
Proof. exact generated_ser_role. Qed.

Theorem c03_generated_decl_order : forallb (fun f => decl_order_canonical (gen_env f)) all_feats = true.
Proof. exact generated_decl_order. Qed.

(* tie to the source for the hand-modelled procedural code: the bodies of these functions, as regenerated from
   /repo now, have the shape (literals, operators, calls, control flow, constants) the model was written against *)
Theorem c03_modelled_functions_unchanged_response : shapes_hold fn_shapes shapes_response = true.
Proof. exact generated_shapes_response. Qed.
Theorem c03_modelled_functions_unchanged_filters : shapes_hold fn_shapes shapes_filters = true.
Proof. exact generated_shapes_filters. Qed.

(* the third-party crates the model represents by hand are pinned at the versions it was written against *)
Theorem c03_modelled_dependencies_pinned : deps_hold repo_lock_present lock_versions harness_lock_versions cargo_deps = true.
Proof. exact generated_deps. Qed.

(* further hand-modelled functions this property rests on *)
Theorem c03_modelled_functions_unchanged_authdata : shapes_hold fn_shapes shapes_authdata = true.
Proof. exact generated_shapes_authdata. Qed.

(* lookup tables, accessors, builders and further generators this property rests on *)
Theorem c03_modelled_functions_unchanged_builders : shapes_hold fn_shapes shapes_builders = true.
Proof. exact generated_shapes_builders. Qed.

(* the plain structures (no serde meaning of their own) whose member types the model relies on *)
Theorem c03_plain_structures_unchanged_authdata : plain_hold raw_decls plain_authdata = true.
Proof. exact generated_plain_authdata. Qed.
Theorem c03_plain_structures_unchanged_builders : plain_hold raw_decls plain_builders = true.
Proof. exact generated_plain_builders. Qed.

(* the cargo features are independent switches with nothing on by default: a feature set of the model means exactly its cfgs *)
Theorem c03_feature_table_unchanged : features_hold cargo_features = true.
Proof. exact generated_features. Qed.

Eval vm_compute in "ASSUMPTIONS c03_all_structs_ordered". Print Assumptions c03_all_structs_ordered.
Eval vm_compute in "ASSUMPTIONS c03_encoder_canonical". Print Assumptions c03_encoder_canonical.
Eval vm_compute in "ASSUMPTIONS c03_response_body_canonical". Print Assumptions c03_response_body_canonical.
Eval vm_compute in "ASSUMPTIONS c03_shortest_heads". Print Assumptions c03_shortest_heads.
Eval vm_compute in "ASSUMPTIONS c03_generated_structs_ordered". Print Assumptions c03_generated_structs_ordered.
Eval vm_compute in "ASSUMPTIONS c03_decl_order_spec". Print Assumptions c03_decl_order_spec.
Eval vm_compute in "ASSUMPTIONS c03_cose_label_order". Print Assumptions c03_cose_label_order.
Eval vm_compute in "ASSUMPTIONS c03_generated_conforms". Print Assumptions c03_generated_conforms.
Eval vm_compute in "ASSUMPTIONS c03_generated_decl_order". Print Assumptions c03_generated_decl_order.
Eval vm_compute in "ASSUMPTIONS c03_modelled_functions_unchanged_response". Print Assumptions c03_modelled_functions_unchanged_response.
Eval vm_compute in "ASSUMPTIONS c03_modelled_functions_unchanged_filters". Print Assumptions c03_modelled_functions_unchanged_filters.
Eval vm_compute in "ASSUMPTIONS c03_modelled_dependencies_pinned". Print Assumptions c03_modelled_dependencies_pinned.
Eval vm_compute in "ASSUMPTIONS c03_modelled_functions_unchanged_authdata". Print Assumptions c03_modelled_functions_unchanged_authdata.
Eval vm_compute in "ASSUMPTIONS c03_modelled_functions_unchanged_builders". Print Assumptions c03_modelled_functions_unchanged_builders.
Eval vm_compute in "ASSUMPTIONS c03_plain_structures_unchanged_authdata". Print Assumptions c03_plain_structures_unchanged_authdata.
Eval vm_compute in "ASSUMPTIONS c03_plain_structures_unchanged_builders". Print Assumptions c03_plain_structures_unchanged_builders.
Eval vm_compute in "ASSUMPTIONS c03_feature_table_unchanged". Print Assumptions c03_feature_table_unchanged.
