(* C16 - Cargo features only add members; they never change the wire format of the rest. *)
From Ctap Require Import Base Schema Typed WellTyped Inst Tables Limits Extends SerP RoundTripP MonoP ObEnvRt.
Local Open Scope string_scope.
Local Open Scope Z_scope.

(* for all 32 x 32 pairs of feature sets with f <= f': the declarations regenerated from /repo under f'
   extend those under f: nothing is renumbered, renamed, reordered or changes optionality; members that
   appear are optional and skipped when unset; capacities only grow *)
Theorem c16_generated_extends : all_pairs_extend gen_env = true.
Proof. vm_compute. reflexivity. Qed.

Theorem c16_spec_extends : all_pairs_extend spec_env = true.
Proof. vm_compute. reflexivity. Qed.

(* std and arbitrary do not touch any declaration *)
Theorem c16_std_arbitrary_irrelevant : nonwire_irrelevant gen_env = true.
Proof. vm_compute. reflexivity. Qed.

(* the only capacity that depends on a feature *)
Theorem c16_large_blob_fragment :
  forallb (fun f => match member_ty (gen_env f) "ctap2::large_blobs::Response" "config" with
                    | Some (TOpt (TBytesCap n)) => n =? (if has_feat f "large-blobs" then 3008 else 0)
                    | _ => false end) all_feats = true.
Proof. vm_compute. reflexivity. Qed.

(* WHAT THE EXTENSION RELATION MEANS ON THE WIRE.  For any two declaration environments with
   env_extends e e' (the boolean above) and well-formed declarations, every value that is well-typed in the
   smaller configuration - i.e. expressed with the members the two have in common - has exactly the same
   encoding in the larger one: by induction over the codec, for all values. *)
Theorem c16_extension_preserves_encoding : forall e e' t v b,
  env_extends e e' = true -> env_rt e = true -> env_rt e' = true ->
  wt e type_fuel t v = true -> encode e t v = Some b -> encode e' t v = Some b.
Proof. exact encode_mono. Qed.

(* instantiated at the declarations regenerated from /repo: any two feature sets f <= f' *)
Theorem c16_encoding_independent_of_features : forall f f' t v b,
  In f all_feats -> In f' all_feats -> subset_feats f f' = true ->
  wt (gen_env f) type_fuel t v = true -> encode (gen_env f) t v = Some b -> encode (gen_env f') t v = Some b.
Proof.
  intros f f' t v b Hf Hf' Hs W H.
  exact (encode_mono_family gen_env f f' t v b c16_generated_extends generated_env_rt Hf Hf' Hs W H).
Qed.

(* and what the larger configuration decodes from such an encoding is a value with the same encoding
   (round trip in the larger configuration): nothing common is renumbered, renamed or re-typed *)
Theorem c16_common_message_decodes_in_both : forall f f' t v b rest,
  In f all_feats -> In f' all_feats -> subset_feats f f' = true ->
  wt (gen_env f) type_fuel t v = true -> encode (gen_env f) t v = Some b ->
  decode (gen_env f) t (b ++ rest)%list = Ok (v, rest) /\ encode (gen_env f') t v = Some b.
Proof.
  intros f f' t v b rest Hf Hf' Hs W H. split.
  - apply (decode_encode (gen_env f) t v b rest); [|exact W|exact H].
    exact (forallb_In (fun f => env_rt (gen_env f)) all_feats f generated_env_rt Hf).
  - exact (encode_mono_family gen_env f f' t v b c16_generated_extends generated_env_rt Hf Hf' Hs W H).
Qed.

Example c16_ex : subset_feats ["large-blobs"] ["get-info-full"; "large-blobs"] = true.
Proof. reflexivity. Qed.

Eval vm_compute in "ASSUMPTIONS c16_generated_extends". Print Assumptions c16_generated_extends.
Eval vm_compute in "ASSUMPTIONS c16_spec_extends". Print Assumptions c16_spec_extends.
Eval vm_compute in "ASSUMPTIONS c16_std_arbitrary_irrelevant". Print Assumptions c16_std_arbitrary_irrelevant.
Eval vm_compute in "ASSUMPTIONS c16_large_blob_fragment". Print Assumptions c16_large_blob_fragment.
Eval vm_compute in "ASSUMPTIONS c16_extension_preserves_encoding". Print Assumptions c16_extension_preserves_encoding.
Eval vm_compute in "ASSUMPTIONS c16_encoding_independent_of_features". Print Assumptions c16_encoding_independent_of_features.
Eval vm_compute in "ASSUMPTIONS c16_common_message_decodes_in_both". Print Assumptions c16_common_message_decodes_in_both.
