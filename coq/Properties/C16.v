(* C16 - Cargo features only add members; they never change the wire format of the rest. *)
From Ctap Require Import Base Schema Typed Inst Tables Limits Extends.
Local Open Scope string_scope.
Local Open Scope Z_scope.

(* for all 32 x 32 pairs of feature sets with f <= f': the declarations regenerated from /repo under f'
   extend those under f: nothing is renumbered, renamed, reordered or changes optionality; members that
   appear are optional and skipped when unset; capacities only grow *)
Theorem c16_generated_extends : all_pairs_extend gen_env = true.
Proof. vm_compute. reflexivity. Qed.

Theorem c16_spec_extends : all_pairs_extend spec_env = true.
Proof. vm_compute. reflexivity. Qed.

(* std and arbitrary do not touch any declaration *)
Theorem c16_std_arbitrary_irrelevant : nonwire_irrelevant gen_env = true.
Proof. vm_compute. reflexivity. Qed.

(* the only capacity that depends on a feature *)
Theorem c16_large_blob_fragment :
  forallb (fun f => match member_ty (gen_env f) "ctap2::large_blobs::Response" "config" with
                    | Some (TOpt (TBytesCap n)) => n =? (if has_feat f "large-blobs" then 3008 else 0)
                    | _ => false end) all_feats = true.
Proof. vm_compute. reflexivity. Qed.

Example c16_ex : subset_feats ["large-blobs"] ["get-info-full"; "large-blobs"] = true.
Proof. reflexivity. Qed.

Eval vm_compute in "ASSUMPTIONS c16_generated_extends". Print Assumptions c16_generated_extends.
Eval vm_compute in "ASSUMPTIONS c16_spec_extends". Print Assumptions c16_spec_extends.
Eval vm_compute in "ASSUMPTIONS c16_std_arbitrary_irrelevant". Print Assumptions c16_std_arbitrary_irrelevant.
Eval vm_compute in "ASSUMPTIONS c16_large_blob_fragment". Print Assumptions c16_large_blob_fragment.
