(* C16 - Cargo features only add members; they never change the wire format of the rest. *)
From Ctap Require Import Base Schema Typed WellTyped Inst Tables Limits Extends SerP RoundTripP MonoP LiftP ObEnvRt Deps ObDeps FnShapes Shapes ObShapeRequest ObShapeStrings ObShapeFilters ObShapeResponse ObShapeTablesReq ObShapeTablesInfo.
Local Open Scope string_scope.
Local Open Scope Z_scope.

(* for all 32 x 32 pairs of feature sets with f <= f': the declarations regenerated from /repo under f'
   extend those under f: nothing is renumbered, renamed, reordered or changes optionality; members that
   appear are optional and skipped when unset; capacities only grow *)
Theorem c16_generated_extends : all_pairs_extend gen_env = true.
Proof. vm_compute. reflexivity. Qed.

Theorem c16_spec_extends : all_pairs_extend spec_env = true.
Proof. vm_compute. reflexivity. Qed.

(* std and arbitrary do not touch any declaration *)
Theorem c16_std_arbitrary_irrelevant : nonwire_irrelevant gen_env = true.
Proof. vm_compute. reflexivity. Qed.

(* the only capacity that depends on a feature *)
Theorem c16_large_blob_fragment :
  forallb (fun f => match member_ty (gen_env f) "ctap2::large_blobs::Response" "config" with
                    | Some (TOpt (TBytesCap n)) => n =? (if has_feat f "large-blobs" then 3008 else 0)
                    | _ => false end) all_feats = true.
Proof. vm_compute. reflexivity. Qed.

(* WHAT THE EXTENSION RELATION MEANS ON THE WIRE.  For any two declaration environments with
   env_extends e e' (the boolean above) and well-formed declarations, every value that is well-typed in the
   smaller configuration - i.e. expressed with the members the two have in common - has exactly the same
   encoding in the larger one: by induction over the codec, for all values. *)
Theorem c16_extension_preserves_encoding : forall e e' t v b,
  env_extends e e' = true -> env_rt e = true -> env_rt e' = true ->
  wt e type_fuel t v = true -> encode e t v = Some b -> encode e' t v = Some b.
Proof. exact encode_mono. Qed.

(* instantiated at the declarations regenerated from /repo: any two feature sets f <= f' *)
Theorem c16_encoding_independent_of_features : forall f f' t v b,
  In f all_feats -> In f' all_feats -> subset_feats f f' = true ->
  wt (gen_env f) type_fuel t v = true -> encode (gen_env f) t v = Some b -> encode (gen_env f') t v = Some b.
Proof.
  intros f f' t v b Hf Hf' Hs W H.
  exact (encode_mono_family gen_env f f' t v b c16_generated_extends generated_env_rt Hf Hf' Hs W H).
Qed.

(* DECODE HALF.  The same message - the encoding of any value well-typed in the smaller configuration -
   decodes in the smaller configuration to that value and in the larger one to [lift] of it: the same value
   in which every member that exists only in the larger configuration is reported absent; nothing common is
   renumbered, renamed, re-typed or changes its value *)
Theorem c16_extension_preserves_decoding : forall e e' t v b rest,
  env_extends e e' = true -> env_rt e = true -> env_rt e' = true -> pkcp_plain e' = true ->
  wt e type_fuel t v = true -> encode e t v = Some b ->
  decode e t (b ++ rest)%list = Ok (v, rest) /\
  decode e' t (b ++ rest)%list = Ok (lift e' type_fuel t v, rest).
Proof. exact decode_in_extension. Qed.

(* what lift is: on a record, the members of the larger configuration that the value carries keep (the lift
   of) their value and all other members are absent; lifting into the same configuration is the identity *)
Theorem c16_lift_record : forall e' k name ix s d fs' vs, lookup e' name = Some (DStruct ix s d fs') ->
  lift e' (S k) (TNamed name) (VRec vs) =
  VRec (map (fun fd => (f_label fd, match rget (f_label fd) vs with
                                    | Some fv => lift e' k (f_ty fd) fv | None => VNone end)) fs').
Proof. exact lift_record. Qed.
Theorem c16_lift_identity : forall e, env_rt e = true -> forall k t v, wt e k t v = true -> lift e k t v = v.
Proof. exact lift_same_env. Qed.

Theorem c16_generated_params_plain : forallb (fun f => pkcp_plain (gen_env f)) all_feats = true.
Proof. vm_compute. reflexivity. Qed.

Lemma decode_family : forall (envf : feats -> env) f f' t v b rest,
  all_pairs_extend envf = true -> forallb (fun f => env_rt (envf f)) all_feats = true ->
  forallb (fun f => pkcp_plain (envf f)) all_feats = true ->
  In f all_feats -> In f' all_feats -> subset_feats f f' = true ->
  wt (envf f) type_fuel t v = true -> encode (envf f) t v = Some b ->
  decode (envf f) t (b ++ rest)%list = Ok (v, rest) /\
  decode (envf f') t (b ++ rest)%list = Ok (lift (envf f') type_fuel t v, rest).
Proof.
  intros envf f f' t v b rest X R P Hf Hf' Hs W H.
  apply (decode_in_extension (envf f) (envf f') t v b rest (all_pairs_extend_at envf f f' X Hf Hf' Hs)); try assumption.
  - exact (forallb_In (fun f => env_rt (envf f)) all_feats f R Hf).
  - exact (forallb_In (fun f => env_rt (envf f)) all_feats f' R Hf').
  - exact (forallb_In (fun f => pkcp_plain (envf f)) all_feats f' P Hf').
Qed.

(* instantiated at the declarations regenerated from /repo: any two feature sets f <= f' *)
Theorem c16_common_message_decodes_in_both : forall f f' t v b rest,
  In f all_feats -> In f' all_feats -> subset_feats f f' = true ->
  wt (gen_env f) type_fuel t v = true -> encode (gen_env f) t v = Some b ->
  decode (gen_env f) t (b ++ rest)%list = Ok (v, rest) /\
  decode (gen_env f') t (b ++ rest)%list = Ok (lift (gen_env f') type_fuel t v, rest).
Proof.
  intros f f' t v b rest Hf Hf' Hs W H.
  exact (decode_family gen_env f f' t v b rest c16_generated_extends generated_env_rt c16_generated_params_plain Hf Hf' Hs W H).
Qed.

(* non-vacuity: a GetInfo response that is well-typed without features, lifted into the get-info-full
   configuration, gains exactly the 13 members that exist only there, all absent *)
Definition c16_ex_gi : val :=
  VRec [("versions", VList [VEnum "Fido2_1"]); ("extensions", VNone); ("aaguid", VBytes (repeat 3 16));
        ("options", VNone); ("max_msg_size", VNone); ("pin_protocols", VNone); ("max_creds_in_list", VNone);
        ("max_cred_id_length", VNone); ("transports", VNone); ("algorithms", VNone);
        ("max_serialized_large_blob_array", VNone)].
Example c16_ex_lift :
  wt (gen_env []) type_fuel (TNamed "ctap2::get_info::Response") c16_ex_gi = true /\
  match lift (gen_env ["get-info-full"]) type_fuel (TNamed "ctap2::get_info::Response") c16_ex_gi with
  | VRec vs => blen vs = 24 /\ firstn 11 vs = match c16_ex_gi with VRec l => l | _ => [] end
               /\ forallb (fun p => match snd p with VNone => true | _ => false end) (skipn 11 vs) = true
  | _ => False end.
Proof. vm_compute. repeat split; reflexivity. Qed.

Example c16_ex : subset_feats ["large-blobs"] ["get-info-full"; "large-blobs"] = true.
Proof. reflexivity. Qed.

(* the third-party crates the model represents by hand are pinned at the versions it was written against *)
Theorem c16_modelled_dependencies_pinned : deps_hold repo_lock_present lock_versions harness_lock_versions cargo_deps = true.
Proof. exact generated_deps. Qed.

(* further hand-modelled functions this property rests on *)
Theorem c16_modelled_functions_unchanged_request : shapes_hold fn_shapes shapes_request = true.
Proof. exact generated_shapes_request. Qed.
Theorem c16_modelled_functions_unchanged_strings : shapes_hold fn_shapes shapes_strings = true.
Proof. exact generated_shapes_strings. Qed.
Theorem c16_modelled_functions_unchanged_filters : shapes_hold fn_shapes shapes_filters = true.
Proof. exact generated_shapes_filters. Qed.
Theorem c16_modelled_functions_unchanged_response : shapes_hold fn_shapes shapes_response = true.
Proof. exact generated_shapes_response. Qed.

(* lookup tables, accessors, builders and further generators this property rests on *)

Theorem c16_modelled_functions_unchanged_tables_req : shapes_hold fn_shapes shapes_tables_req = true.
Proof. exact generated_shapes_tables_req. Qed.
Theorem c16_modelled_functions_unchanged_tables_info : shapes_hold fn_shapes shapes_tables_info = true.
Proof. exact generated_shapes_tables_info. Qed.

(* the cargo features are independent switches with nothing on by default: a feature set of the model means exactly its cfgs *)
Theorem c16_feature_table_unchanged : features_hold cargo_features = true.
Proof. exact generated_features. Qed.

Eval vm_compute in "ASSUMPTIONS c16_generated_extends". Print Assumptions c16_generated_extends.
Eval vm_compute in "ASSUMPTIONS c16_spec_extends". Print Assumptions c16_spec_extends.
Eval vm_compute in "ASSUMPTIONS c16_std_arbitrary_irrelevant". Print Assumptions c16_std_arbitrary_irrelevant.
Eval vm_compute in "ASSUMPTIONS c16_large_blob_fragment". Print Assumptions c16_large_blob_fragment.
Eval vm_compute in "ASSUMPTIONS c16_extension_preserves_encoding". Print Assumptions c16_extension_preserves_encoding.
Eval vm_compute in "ASSUMPTIONS c16_encoding_independent_of_features". Print Assumptions c16_encoding_independent_of_features.
Eval vm_compute in "ASSUMPTIONS c16_common_message_decodes_in_both". Print Assumptions c16_common_message_decodes_in_both.
Eval vm_compute in "ASSUMPTIONS c16_extension_preserves_decoding". Print Assumptions c16_extension_preserves_decoding.
Eval vm_compute in "ASSUMPTIONS c16_lift_record". Print Assumptions c16_lift_record.
Eval vm_compute in "ASSUMPTIONS c16_lift_identity". Print Assumptions c16_lift_identity.
Eval vm_compute in "ASSUMPTIONS c16_generated_params_plain". Print Assumptions c16_generated_params_plain.
Eval vm_compute in "ASSUMPTIONS c16_modelled_dependencies_pinned". Print Assumptions c16_modelled_dependencies_pinned.
Eval vm_compute in "ASSUMPTIONS c16_modelled_functions_unchanged_request". Print Assumptions c16_modelled_functions_unchanged_request.
Eval vm_compute in "ASSUMPTIONS c16_modelled_functions_unchanged_strings". Print Assumptions c16_modelled_functions_unchanged_strings.
Eval vm_compute in "ASSUMPTIONS c16_modelled_functions_unchanged_filters". Print Assumptions c16_modelled_functions_unchanged_filters.
Eval vm_compute in "ASSUMPTIONS c16_modelled_functions_unchanged_response". Print Assumptions c16_modelled_functions_unchanged_response.
Eval vm_compute in "ASSUMPTIONS c16_modelled_functions_unchanged_tables_req". Print Assumptions c16_modelled_functions_unchanged_tables_req.
Eval vm_compute in "ASSUMPTIONS c16_modelled_functions_unchanged_tables_info". Print Assumptions c16_modelled_functions_unchanged_tables_info.
Eval vm_compute in "ASSUMPTIONS c16_feature_table_unchanged". Print Assumptions c16_feature_table_unchanged.
