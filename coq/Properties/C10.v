(* C10 - Each request reaches exactly the authenticator method for its command. *)
From Ctap Require Import Base Schema Wire Typed Procs Inst Tables ProcTables Finite FramingP FnShapes Shapes ObShapeDispatch Deps ObDeps ObShapeRequest ObShapeU2fParse ObShapeTablesOp PlainDecls ObPlainU2fRequests ObPlainU2fResponses ObPlainMisc ObDispatchImpls.
Local Open Scope string_scope.
Local Open Scope Z_scope.

(* the specification's dispatch table: request variant -> handler -> response variant, fallible? *)
Definition spec_dispatch2 : list (string * string * string * bool) := [
  ("GetInfo", "get_info", "GetInfo", false);
  ("MakeCredential", "make_credential", "MakeCredential", true);
  ("GetAssertion", "get_assertion", "GetAssertion", true);
  ("GetNextAssertion", "get_next_assertion", "GetNextAssertion", true);
  ("Reset", "reset", "Reset", true);
  ("ClientPin", "client_pin", "ClientPin", true);
  ("CredentialManagement", "credential_management", "CredentialManagement", true);
  ("Selection", "selection", "Selection", true);
  ("LargeBlobs", "large_blobs", "LargeBlobs", true);
  ("Vendor", "vendor", "Vendor", true) ].
Definition spec_dispatch1 : list (string * string * string * bool) := [
  ("Register", "register", "Register", true);
  ("Authenticate", "authenticate", "Authenticate", true) ].

(* For EVERY authenticator (any state type, any handler function - arbitrary behaviour), every state and
   every payload: dispatching a request variant runs exactly the one handler of that command, exactly
   once, on the unchanged payload, and returns its result wrapped in the same-named response variant,
   or its error unchanged.  (The handler is applied once in the statement: there is no other call.) *)
Theorem c10_ctap2 : forall (St : Type) (handler : string -> val -> St -> St * hres) variant method ctor fallible payload st,
  In (variant, method, ctor, fallible) spec_dispatch2 ->
  dispatch St handler (t_call2 spec_tables) variant payload st =
    match handler method payload st with
    | (st', HOk v) => Some (st', HOk (VVar ctor v))
    | (st', HErr c) => if fallible then Some (st', HErr c) else None
    end.
Proof.
  intros St handler variant method ctor fallible payload st Hin.
  cbn [spec_dispatch2 In] in Hin.
  repeat (destruct Hin as [Hin|Hin]; [injection Hin as <- <- <- <-; unfold dispatch; cbn [t_call2 spec_tables match_var String.eqb Ascii.eqb Bool.eqb]; destruct (handler _ payload st) as [st' [v|c]]; reflexivity|]).
  destruct Hin.
Qed.

Theorem c10_ctap1 : forall (St : Type) (handler : string -> val -> St -> St * hres) variant method ctor fallible payload st,
  In (variant, method, ctor, fallible) spec_dispatch1 ->
  dispatch St handler (t_call1 spec_tables) variant payload st =
    match handler method payload st with
    | (st', HOk v) => Some (st', HOk (VVar ctor v))
    | (st', HErr c) => if fallible then Some (st', HErr c) else None
    end.
Proof.
  intros St handler variant method ctor fallible payload st Hin.
  cbn [spec_dispatch1 In] in Hin.
  repeat (destruct Hin as [Hin|Hin]; [injection Hin as <- <- <- <-; unfold dispatch; cbn [t_call1 spec_tables match_var String.eqb Ascii.eqb Bool.eqb]; destruct (handler _ payload st) as [st' [v|c]]; reflexivity|]).
  destruct Hin.
Qed.

(* with a logging authenticator the call log grows by exactly one event, of the right kind *)
Definition logging (outcome : string -> hres) (m : string) (_ : val) (log : list string) : list string * hres :=
  ((log ++ [m])%list, outcome m).
Theorem c10_exactly_one_call : forall outcome variant method ctor fallible payload log st' r,
  In (variant, method, ctor, fallible) spec_dispatch2 ->
  dispatch (list string) (logging outcome) (t_call2 spec_tables) variant payload log = Some (st', r) ->
  st' = (log ++ [method])%list.
Proof.
  intros outcome variant method ctor fallible payload log st' r Hin H.
  rewrite (c10_ctap2 _ (logging outcome) variant method ctor fallible payload log Hin) in H.
  unfold logging in H. destruct (outcome method); [|destruct fallible; [|discriminate]]; injection H as <- _; reflexivity.
Qed.

(* GetInfo cannot fail (its handler returns a response, not a Result) *)
Theorem c10_get_info_infallible : In ("GetInfo", "get_info", "GetInfo", false) spec_dispatch2.
Proof. left. reflexivity. Qed.

(* tie: the two dispatch tables regenerated from the match arms in /repo *)
Definition mbody_call_eqb (a b : option mbody) : bool :=
  match a, b with
  | Some (MB_Call m c f), Some (MB_Call m' c' f') => list_eqb String.eqb m m' && String.eqb c c' && Bool.eqb f f'
  | Some (MB_Other _), Some (MB_Other _) => true
  | _, _ => false
  end.
Definition call_tables_equiv (G : tables) : bool :=
  forallb (fun v => mbody_call_eqb (match_var (t_call2 G) v) (match_var (t_call2 spec_tables) v))
          ["GetInfo"; "MakeCredential"; "GetAssertion"; "GetNextAssertion"; "Reset"; "ClientPin"; "CredentialManagement"; "Selection"; "LargeBlobs"; "Vendor"]
  && forallb (fun v => mbody_call_eqb (match_var (t_call1 G) v) (match_var (t_call1 spec_tables) v))
             ["Register"; "Authenticate"; "Version"]
  && Z.eqb (blen (t_call2 G)) 10 && Z.eqb (blen (t_call1 G)) 3.
Theorem c10_generated_tables : forallb (fun f => call_tables_equiv (gen_tables f)) all_feats = true.
Proof. vm_compute. reflexivity. Qed.

(* tie to the source for the hand-modelled procedural code: the bodies of these functions, as regenerated from
   /repo now, have the shape (literals, operators, calls, control flow, constants) the model was written against *)
Theorem c10_modelled_functions_unchanged_dispatch : shapes_hold fn_shapes shapes_dispatch = true.
Proof. exact generated_shapes_dispatch. Qed.

(* the third-party crates the model represents by hand are pinned at the versions it was written against *)
Theorem c10_modelled_dependencies_pinned : deps_hold repo_lock_present lock_versions harness_lock_versions cargo_deps = true.
Proof. exact generated_deps. Qed.

(* further hand-modelled functions this property rests on *)
Theorem c10_modelled_functions_unchanged_request : shapes_hold fn_shapes shapes_request = true.
Proof. exact generated_shapes_request. Qed.
Theorem c10_modelled_functions_unchanged_u2f_parse : shapes_hold fn_shapes shapes_u2f_parse = true.
Proof. exact generated_shapes_u2f_parse. Qed.

(* lookup tables, accessors, builders and further generators this property rests on *)
Theorem c10_modelled_functions_unchanged_tables_op : shapes_hold fn_shapes shapes_tables_op = true.
Proof. exact generated_shapes_tables_op. Qed.

(* the plain structures (no serde meaning of their own) whose member types the model relies on *)
Theorem c10_plain_structures_unchanged_u2f_requests : plain_hold raw_decls plain_u2f_requests = true.
Proof. exact generated_plain_u2f_requests. Qed.
Theorem c10_plain_structures_unchanged_u2f_responses : plain_hold raw_decls plain_u2f_responses = true.
Proof. exact generated_plain_u2f_responses. Qed.
Theorem c10_plain_structures_unchanged_misc : plain_hold raw_decls plain_misc = true.
Proof. exact generated_plain_misc. Qed.

(* which types implement the dispatch traits decides where a method call on a handle ends *)
Theorem c10_dispatch_trait_impls_unchanged : dispatch_impls_hold dispatch_impls = true.
Proof. exact generated_dispatch_impls. Qed.

(* the cargo features are independent switches with nothing on by default: a feature set of the model means exactly its cfgs *)
Theorem c10_feature_table_unchanged : features_hold cargo_features = true.
Proof. exact generated_features. Qed.

Eval vm_compute in "ASSUMPTIONS c10_ctap2". Print Assumptions c10_ctap2.
Eval vm_compute in "ASSUMPTIONS c10_ctap1". Print Assumptions c10_ctap1.
Eval vm_compute in "ASSUMPTIONS c10_exactly_one_call". Print Assumptions c10_exactly_one_call.
Eval vm_compute in "ASSUMPTIONS c10_get_info_infallible". Print Assumptions c10_get_info_infallible.
Eval vm_compute in "ASSUMPTIONS c10_generated_tables". Print Assumptions c10_generated_tables.
Eval vm_compute in "ASSUMPTIONS c10_modelled_functions_unchanged_dispatch". Print Assumptions c10_modelled_functions_unchanged_dispatch.
Eval vm_compute in "ASSUMPTIONS c10_modelled_dependencies_pinned". Print Assumptions c10_modelled_dependencies_pinned.
Eval vm_compute in "ASSUMPTIONS c10_modelled_functions_unchanged_request". Print Assumptions c10_modelled_functions_unchanged_request.
Eval vm_compute in "ASSUMPTIONS c10_modelled_functions_unchanged_u2f_parse". Print Assumptions c10_modelled_functions_unchanged_u2f_parse.
Eval vm_compute in "ASSUMPTIONS c10_modelled_functions_unchanged_tables_op". Print Assumptions c10_modelled_functions_unchanged_tables_op.
Eval vm_compute in "ASSUMPTIONS c10_plain_structures_unchanged_u2f_requests". Print Assumptions c10_plain_structures_unchanged_u2f_requests.
Eval vm_compute in "ASSUMPTIONS c10_plain_structures_unchanged_u2f_responses". Print Assumptions c10_plain_structures_unchanged_u2f_responses.
Eval vm_compute in "ASSUMPTIONS c10_plain_structures_unchanged_misc". Print Assumptions c10_plain_structures_unchanged_misc.
Eval vm_compute in "ASSUMPTIONS c10_dispatch_trait_impls_unchanged". Print Assumptions c10_dispatch_trait_impls_unchanged.
Eval vm_compute in "ASSUMPTIONS c10_feature_table_unchanged". Print Assumptions c10_feature_table_unchanged.
