(* C02 - CTAP2 response encoding carries every member under its specified key, exactly. *)
From Ctap Require Import Base Schema Wire Typed Procs Inst Tables ProcTables Finite FramingP.
Local Open Scope string_scope.
Local Open Scope Z_scope.

(* the encoded message is the success status byte followed by the CBOR body; a body that is the empty
   map (no member set) is dropped: status byte alone.  N is any capacity the message fits. *)
Theorem c02_message : forall e variant payload n prior t b,
  serialising spec_tables variant t -> encode e t payload = Some b -> blen b + 1 <= n ->
  response_serialize spec_tables e variant payload n prior = Ok (msg b).
Proof.
  intros e variant payload n prior t b Hs He Hn.
  assert (1 <= n) by (unfold blen in *; Lia.lia).
  erewrite response_serialize_ser by eassumption.
  destruct (blen b <=? n - 1) eqn:E; [reflexivity|]. apply Z.leb_gt in E. Lia.lia.
Qed.

Theorem c02_parameterless : forall e variant payload n prior,
  1 <= n -> In variant ["Reset"; "Selection"; "Vendor"] ->
  response_serialize spec_tables e variant payload n prior = Ok [0].
Proof.
  intros e variant payload n prior Hn Hin.
  destruct Hin as [<-|[<-|[<-|[]]]]; eapply response_serialize_empty_arm; try exact Hn; reflexivity.
Qed.

(* GetNextAssertion encodes exactly like GetAssertion: for every environment, value, capacity, buffer *)
Theorem c02_next_assertion_same : forall e payload n prior,
  response_serialize spec_tables e "GetNextAssertion" payload n prior =
  response_serialize spec_tables e "GetAssertion" payload n prior.
Proof.
  intros e payload n prior. unfold response_serialize.
  destruct (n <=? 0); [reflexivity|].
  replace (match_var (t_resp_arms spec_tables) "GetNextAssertion") with (Some MB_Ser) by (vm_compute; reflexivity).
  replace (match_var (t_resp_arms spec_tables) "GetAssertion") with (Some MB_Ser) by (vm_compute; reflexivity).
  replace (assoc "GetNextAssertion" (t_resp_variants spec_tables)) with (Some [TNamed "ctap2::get_assertion::Response"]) by (vm_compute; reflexivity).
  replace (assoc "GetAssertion" (t_resp_variants spec_tables)) with (Some [TNamed "ctap2::get_assertion::Response"]) by (vm_compute; reflexivity).
  reflexivity.
Qed.

(* no member set -> the body is the empty map -> status byte alone (ClientPin / CredentialManagement /
   LargeBlobs responses, whose members are all optional) *)
Theorem c02_no_member_set :
  forall f, In f all_feats ->
  encode (spec_env f) (TNamed "ctap2::client_pin::Response")
    (VRec [("key_agreement", VNone); ("pin_token", VNone); ("retries", VNone); ("power_cycle_state", VNone); ("uv_retries", VNone)])
  = Some [160] /\
  encode (spec_env f) (TNamed "ctap2::large_blobs::Response") (VRec [("config", VNone)]) = Some [160].
Proof.
  intros f Hf.
  assert (G : forallb (fun f =>
     opt_eqb bytes_eqb (encode (spec_env f) (TNamed "ctap2::client_pin::Response")
       (VRec [("key_agreement", VNone); ("pin_token", VNone); ("retries", VNone); ("power_cycle_state", VNone); ("uv_retries", VNone)])) (Some [160])
     && opt_eqb bytes_eqb (encode (spec_env f) (TNamed "ctap2::large_blobs::Response") (VRec [("config", VNone)])) (Some [160]))
     all_feats = true) by (vm_compute; reflexivity).
  rewrite forallb_forall in G. specialize (G f Hf). apply andb_true_iff in G. destruct G as [G1 G2].
  split; apply (opt_eqb_eq bytes_eqb (fun a b H => proj1 (bytes_eqb_eq a b) H)); assumption.
Qed.

(* tie to the source: the member tables (keys, order, types, which members are skipped when unset) and
   the variant -> serialised-member table *)
Theorem c02_generated_conforms :
  forallb (fun f => response_side_conforms (gen_env f) (spec_env f)) all_feats = true.
Proof. exact generated_response_side. Qed.
Theorem c02_generated_tables : forallb (fun f => resp_tables_equiv (gen_tables f)) all_feats = true.
Proof. exact generated_resp_tables. Qed.

Eval vm_compute in "ASSUMPTIONS c02_message". Print Assumptions c02_message.
Eval vm_compute in "ASSUMPTIONS c02_parameterless". Print Assumptions c02_parameterless.
Eval vm_compute in "ASSUMPTIONS c02_next_assertion_same". Print Assumptions c02_next_assertion_same.
Eval vm_compute in "ASSUMPTIONS c02_no_member_set". Print Assumptions c02_no_member_set.
Eval vm_compute in "ASSUMPTIONS c02_generated_conforms". Print Assumptions c02_generated_conforms.
Eval vm_compute in "ASSUMPTIONS c02_generated_tables". Print Assumptions c02_generated_tables.
