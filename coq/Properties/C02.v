(* C02 - CTAP2 response encoding carries every member under its specified key, exactly. *)
From Ctap Require Import Base Schema Wire Typed Procs Inst Tables ProcTables Finite Canonical WireP SerP FramingP ObResponseSide ObRespTables FnShapes Shapes ObShapeResponse AgreeP ObResponseAgree Deps ObDeps ObShapeFilters ObShapeBuilders ObShapeAccessors ObShapeTablesInfo PlainDecls ObPlainBuilders ObPlainMisc.
Local Open Scope string_scope.
Local Open Scope Z_scope.

(* the encoded message is the success status byte followed by the CBOR body; a body that is the empty
   map (no member set) is dropped: status byte alone.  N is any capacity the message fits. *)
Theorem c02_message : forall e variant payload n prior t b,
  serialising spec_tables variant t -> encode e t payload = Some b -> blen b + 1 <= n ->
  response_serialize spec_tables e variant payload n prior = Ok (msg b).
Proof.
  intros e variant payload n prior t b Hs He Hn.
  assert (1 <= n) by (unfold blen in *; Lia.lia).
  erewrite response_serialize_ser by eassumption.
  destruct (blen b <=? n - 1) eqn:E; [reflexivity|]. apply Z.leb_gt in E. Lia.lia.
Qed.

Theorem c02_parameterless : forall e variant payload n prior,
  1 <= n -> In variant ["Reset"; "Selection"; "Vendor"] ->
  response_serialize spec_tables e variant payload n prior = Ok [0].
Proof.
  intros e variant payload n prior Hn Hin.
  destruct Hin as [<-|[<-|[<-|[]]]]; eapply response_serialize_empty_arm; try exact Hn; reflexivity.
Qed.

(* GetNextAssertion encodes exactly like GetAssertion: for every environment, value, capacity, buffer *)
Theorem c02_next_assertion_same : forall e payload n prior,
  response_serialize spec_tables e "GetNextAssertion" payload n prior =
  response_serialize spec_tables e "GetAssertion" payload n prior.
Proof.
  intros e payload n prior. unfold response_serialize.
  destruct (n <=? 0); [reflexivity|].
  replace (match_var (t_resp_arms spec_tables) "GetNextAssertion") with (Some MB_Ser) by (vm_compute; reflexivity).
  replace (match_var (t_resp_arms spec_tables) "GetAssertion") with (Some MB_Ser) by (vm_compute; reflexivity).
  replace (assoc "GetNextAssertion" (t_resp_variants spec_tables)) with (Some [TNamed "ctap2::get_assertion::Response"]) by (vm_compute; reflexivity).
  replace (assoc "GetAssertion" (t_resp_variants spec_tables)) with (Some [TNamed "ctap2::get_assertion::Response"]) by (vm_compute; reflexivity).
  reflexivity.
Qed.

(* no member set -> the body is the empty map -> status byte alone (ClientPin / CredentialManagement /
   LargeBlobs responses, whose members are all optional) *)
Theorem c02_no_member_set :
  forall f, In f all_feats ->
  encode (spec_env f) (TNamed "ctap2::client_pin::Response")
    (VRec [("key_agreement", VNone); ("pin_token", VNone); ("retries", VNone); ("power_cycle_state", VNone); ("uv_retries", VNone)])
  = Some [160] /\
  encode (spec_env f) (TNamed "ctap2::large_blobs::Response") (VRec [("config", VNone)]) = Some [160].
Proof.
  intros f Hf.
  assert (G : forallb (fun f =>
     opt_eqb bytes_eqb (encode (spec_env f) (TNamed "ctap2::client_pin::Response")
       (VRec [("key_agreement", VNone); ("pin_token", VNone); ("retries", VNone); ("power_cycle_state", VNone); ("uv_retries", VNone)])) (Some [160])
     && opt_eqb bytes_eqb (encode (spec_env f) (TNamed "ctap2::large_blobs::Response") (VRec [("config", VNone)])) (Some [160]))
     all_feats = true) by (vm_compute; reflexivity).
  rewrite forallb_forall in G. specialize (G f Hf). apply andb_true_iff in G. destruct G as [G1 G2].
  split; apply (opt_eqb_eq bytes_eqb (fun a b H => proj1 (bytes_eqb_eq a b) H)); assumption.
Qed.

(* For ANY environment and ANY record value: a struct is emitted as exactly ONE map; its entries are,
   in declaration order, the members that are emitted (emit_list); the count in the map head is their
   number *)
Theorem c02_struct_is_one_map : forall e k name i s d fs vs,
  lookup e name = Some (DStruct i s d fs) ->
  ser e (S k) (TNamed name) (VRec vs) =
    match emit_list (ser e k) vs fs with
    | Some l => Some (put_head 5 (blen l) ++ List.concat (map (fun p => ser_key (fst p) ++ snd p) l))%list
    | None => None
    end.
Proof. exact ser_struct_shape. Qed.

(* each entry is a declared member, under ITS key, carrying exactly the encoding of ITS value; the
   member is one that is set (emitted fd fv: never an unset skip-if-none member, so never null for an
   absent optional member) *)
Theorem c02_entries_are_set_members : forall serf vs fs l, emit_list serf vs fs = Some l ->
  Forall (fun p => exists fd fv, In fd fs /\ f_key fd = fst p /\ rget (f_label fd) vs = Some fv /\
                                 emitted fd fv = true /\ serf (f_ty fd) fv = Some (snd p)) l.
Proof. exact emit_list_bodies. Qed.

Theorem c02_unset_optional_not_emitted : forall fd, f_skip_none fd = true -> emitted fd VNone = false.
Proof. intros fd H. unfold emitted. rewrite H. cbn. apply andb_false_r. Qed.

(* each member at most once, in declaration order: the emitted keys are a sublist of the declared keys *)
Theorem c02_each_member_once : forall serf vs fs l, emit_list serf vs fs = Some l ->
  sublist (map fst l) (emitted_keys fs).
Proof. exact emit_list_keys. Qed.

(* tie to the source: the member tables (keys, order, types, which members are skipped when unset) and
   the variant -> serialised-member table *)
Theorem c02_generated_conforms :
  forallb (fun f => response_side_conforms (gen_env f) (spec_env f)) all_feats = true.
Proof. exact generated_response_side. Qed.
Theorem c02_generated_tables : forallb (fun f => resp_tables_equiv (gen_tables f)) all_feats = true.
Proof. exact generated_resp_tables. Qed.

(* THE RESPONSE MODEL AT THE REGENERATED SOURCE IS THE RESPONSE MODEL AT THE SPECIFICATION TABLES: for every
   Response variant, payload, capacity and prior buffer contents, in every feature configuration (the encoder
   consults an environment only through the declarations reachable from the payload type; on the response
   closure the regenerated declarations, arm kinds, payload types and the overflow status are the
   specification's - kernel-evaluated on every run) *)
Theorem c02_generated_agreement :
  forallb (fun f => response_bundle spec_tables (gen_tables f) (spec_env f) (gen_env f) (response_names f)) all_feats = true.
Proof. exact generated_response_agreement. Qed.

Theorem c02_generated_model_is_spec_model : forall f variant tys payload n prior, In f all_feats ->
  assoc variant (t_resp_variants spec_tables) = Some tys ->
  response_serialize (gen_tables f) (gen_env f) variant payload n prior
  = response_serialize spec_tables (spec_env f) variant payload n prior.
Proof.
  intros f variant tys payload n prior Hf Hv. symmetry.
  exact (response_models_agree spec_tables (gen_tables f) (spec_env f) (gen_env f) (response_names f)
           (forallb_In (fun f => response_bundle spec_tables (gen_tables f) (spec_env f) (gen_env f) (response_names f))
                       all_feats f generated_response_agreement Hf) variant tys Hv payload n prior).
Qed.

(* tie to the source for the hand-modelled procedural code: the bodies of these functions, as regenerated from
   /repo now, have the shape (literals, operators, calls, control flow, constants) the model was written against *)
Theorem c02_modelled_functions_unchanged_response : shapes_hold fn_shapes shapes_response = true.
Proof. exact generated_shapes_response. Qed.

(* the third-party crates the model represents by hand are pinned at the versions it was written against *)
Theorem c02_modelled_dependencies_pinned : deps_hold repo_lock_present lock_versions harness_lock_versions cargo_deps = true.
Proof. exact generated_deps. Qed.

(* further hand-modelled functions this property rests on *)
Theorem c02_modelled_functions_unchanged_filters : shapes_hold fn_shapes shapes_filters = true.
Proof. exact generated_shapes_filters. Qed.

(* lookup tables, accessors, builders and further generators this property rests on *)
Theorem c02_modelled_functions_unchanged_builders : shapes_hold fn_shapes shapes_builders = true.
Proof. exact generated_shapes_builders. Qed.
Theorem c02_modelled_functions_unchanged_accessors : shapes_hold fn_shapes shapes_accessors = true.
Proof. exact generated_shapes_accessors. Qed.

Theorem c02_modelled_functions_unchanged_tables_info : shapes_hold fn_shapes shapes_tables_info = true.
Proof. exact generated_shapes_tables_info. Qed.

(* the plain structures (no serde meaning of their own) whose member types the model relies on *)
Theorem c02_plain_structures_unchanged_builders : plain_hold raw_decls plain_builders = true.
Proof. exact generated_plain_builders. Qed.
Theorem c02_plain_structures_unchanged_misc : plain_hold raw_decls plain_misc = true.
Proof. exact generated_plain_misc. Qed.

(* the cargo features are independent switches with nothing on by default: a feature set of the model means exactly its cfgs *)
Theorem c02_feature_table_unchanged : features_hold cargo_features = true.
Proof. exact generated_features. Qed.

Eval vm_compute in "ASSUMPTIONS c02_message". Print Assumptions c02_message.
Eval vm_compute in "ASSUMPTIONS c02_parameterless". Print Assumptions c02_parameterless.
Eval vm_compute in "ASSUMPTIONS c02_next_assertion_same". Print Assumptions c02_next_assertion_same.
Eval vm_compute in "ASSUMPTIONS c02_no_member_set". Print Assumptions c02_no_member_set.
Eval vm_compute in "ASSUMPTIONS c02_struct_is_one_map". Print Assumptions c02_struct_is_one_map.
Eval vm_compute in "ASSUMPTIONS c02_entries_are_set_members". Print Assumptions c02_entries_are_set_members.
Eval vm_compute in "ASSUMPTIONS c02_unset_optional_not_emitted". Print Assumptions c02_unset_optional_not_emitted.
Eval vm_compute in "ASSUMPTIONS c02_each_member_once". Print Assumptions c02_each_member_once.
Eval vm_compute in "ASSUMPTIONS c02_generated_conforms". Print Assumptions c02_generated_conforms.
Eval vm_compute in "ASSUMPTIONS c02_generated_tables". Print Assumptions c02_generated_tables.
Eval vm_compute in "ASSUMPTIONS c02_modelled_functions_unchanged_response". Print Assumptions c02_modelled_functions_unchanged_response.
Eval vm_compute in "ASSUMPTIONS c02_generated_agreement". Print Assumptions c02_generated_agreement.
Eval vm_compute in "ASSUMPTIONS c02_generated_model_is_spec_model". Print Assumptions c02_generated_model_is_spec_model.
Eval vm_compute in "ASSUMPTIONS c02_modelled_dependencies_pinned". Print Assumptions c02_modelled_dependencies_pinned.
Eval vm_compute in "ASSUMPTIONS c02_modelled_functions_unchanged_filters". Print Assumptions c02_modelled_functions_unchanged_filters.
Eval vm_compute in "ASSUMPTIONS c02_modelled_functions_unchanged_builders". Print Assumptions c02_modelled_functions_unchanged_builders.
Eval vm_compute in "ASSUMPTIONS c02_modelled_functions_unchanged_accessors". Print Assumptions c02_modelled_functions_unchanged_accessors.
Eval vm_compute in "ASSUMPTIONS c02_modelled_functions_unchanged_tables_info". Print Assumptions c02_modelled_functions_unchanged_tables_info.
Eval vm_compute in "ASSUMPTIONS c02_plain_structures_unchanged_builders". Print Assumptions c02_plain_structures_unchanged_builders.
Eval vm_compute in "ASSUMPTIONS c02_plain_structures_unchanged_misc". Print Assumptions c02_plain_structures_unchanged_misc.
Eval vm_compute in "ASSUMPTIONS c02_feature_table_unchanged". Print Assumptions c02_feature_table_unchanged.
