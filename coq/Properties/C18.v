(* C18 - Protocol identifier tables are exact: every listed name/number, nothing else. *)
From Ctap Require Import Base Schema Wire Typed Procs Inst Tables ProcTables Finite FramingP C18P ObEnums ObByteTables Deps ObDeps FnShapes Shapes ObShapeTablesOp ObShapeTablesReq ObShapeTablesInfo.
Local Open Scope string_scope.
Local Open Scope Z_scope.

(* 1. the enumerations regenerated from /repo are exactly the specification's: variants, spellings,
      numbers, and the decode table is the inverse of the encode table - all feature sets *)
Theorem c18_generated_enums_exact : forallb (fun f => enums_exact (gen_env f)) all_feats = true.
Proof. exact generated_enums_exact. Qed.
Theorem c18_spec_enums_exact : forallb (fun f => enums_exact (spec_env f)) all_feats = true.
Proof. exact spec_enums_exact. Qed.

(* 2. distinct identifiers never share a spelling or a number *)
Theorem c18_distinct : spellings_distinct = true.
Proof. exact spec_spellings_distinct. Qed.
Theorem c18_status_codes_distinct : nodup_zs (map snd spec_status_codes) = true /\ nodup_s (map fst spec_status_codes) = true.
Proof. exact status_codes_distinct. Qed.
Theorem c18_permission_bits : 
  forallb (fun p => existsb (Z.eqb (snd p)) [1; 2; 4; 8; 16; 32; 64; 128]) (t_permissions spec_tables) = true
  /\ nodup_zs (map snd (t_permissions spec_tables)) = true.
Proof. exact permission_bits_distinct_powers. Qed.

(* 3. every OTHER string is rejected: for every byte string s (case variants, prefixes, extensions,
      anything), a string match table accepts s only if s is byte-for-byte a listed spelling *)
Theorem c18_only_listed_spellings : forall s arms v,
  lookup_tryfrom s arms = Some v -> exists sp, In (sp, v) arms /\ s = bytes_of_string sp.
Proof. exact lookup_tryfrom_sound. Qed.
Theorem c18_rejected_means_unlisted : forall s arms,
  lookup_tryfrom s arms = None -> forall sp v, In (sp, v) arms -> s <> bytes_of_string sp.
Proof. exact lookup_tryfrom_none. Qed.

(* ... and every other number: a discriminant table accepts z only if z is listed *)
Theorem c18_only_listed_numbers : forall z vs v, variant_of_discr z vs = Some v -> In (v, z) vs.
Proof. exact variant_of_discr_sound. Qed.
Theorem c18_rejected_number_unlisted : forall z vs, variant_of_discr z vs = None -> forall v, ~ In (v, z) vs.
Proof. exact variant_of_discr_none. Qed.

(* 4. U2F control bytes: all 256 values *)
Theorem c18_control_bytes : forall b, 0 <= b < 256 ->
  match_u8 (t_control_try spec_tables) b =
    Some (if b =? 3 then MB_Var "EnforceUserPresenceAndSign"
          else if b =? 7 then MB_Var "CheckOnly"
          else if b =? 8 then MB_Var "DontEnforceUserPresenceAndSign"
          else MB_Err "IncorrectDataParameter").
Proof. exact control_byte_table. Qed.

(* 5. tie: byte-valued tables (control bytes, credential protection policy try_from over all 256 bytes,
      status discriminants, permission and flag bits) regenerated from /repo equal the specification's *)
Theorem c18_generated_byte_tables : forallb (fun f => byte_tables_equiv (gen_tables f)) all_feats = true.
Proof. exact generated_byte_tables. Qed.

(* the third-party crates the model represents by hand are pinned at the versions it was written against *)
Theorem c18_modelled_dependencies_pinned : deps_hold repo_lock_present lock_versions harness_lock_versions cargo_deps = true.
Proof. exact generated_deps. Qed.

(* lookup tables, accessors, builders and further generators this property rests on *)
Theorem c18_modelled_functions_unchanged_tables_op : shapes_hold fn_shapes shapes_tables_op = true.
Proof. exact generated_shapes_tables_op. Qed.

Theorem c18_modelled_functions_unchanged_tables_req : shapes_hold fn_shapes shapes_tables_req = true.
Proof. exact generated_shapes_tables_req. Qed.
Theorem c18_modelled_functions_unchanged_tables_info : shapes_hold fn_shapes shapes_tables_info = true.
Proof. exact generated_shapes_tables_info. Qed.

(* the cargo features are independent switches with nothing on by default: a feature set of the model means exactly its cfgs *)
Theorem c18_feature_table_unchanged : features_hold cargo_features = true.
Proof. exact generated_features. Qed.

Eval vm_compute in "ASSUMPTIONS c18_generated_enums_exact". Print Assumptions c18_generated_enums_exact.
Eval vm_compute in "ASSUMPTIONS c18_spec_enums_exact". Print Assumptions c18_spec_enums_exact.
Eval vm_compute in "ASSUMPTIONS c18_distinct". Print Assumptions c18_distinct.
Eval vm_compute in "ASSUMPTIONS c18_status_codes_distinct". Print Assumptions c18_status_codes_distinct.
Eval vm_compute in "ASSUMPTIONS c18_permission_bits". Print Assumptions c18_permission_bits.
Eval vm_compute in "ASSUMPTIONS c18_only_listed_spellings". Print Assumptions c18_only_listed_spellings.
Eval vm_compute in "ASSUMPTIONS c18_rejected_means_unlisted". Print Assumptions c18_rejected_means_unlisted.
Eval vm_compute in "ASSUMPTIONS c18_only_listed_numbers". Print Assumptions c18_only_listed_numbers.
Eval vm_compute in "ASSUMPTIONS c18_rejected_number_unlisted". Print Assumptions c18_rejected_number_unlisted.
Eval vm_compute in "ASSUMPTIONS c18_control_bytes". Print Assumptions c18_control_bytes.
Eval vm_compute in "ASSUMPTIONS c18_generated_byte_tables". Print Assumptions c18_generated_byte_tables.
Eval vm_compute in "ASSUMPTIONS c18_modelled_dependencies_pinned". Print Assumptions c18_modelled_dependencies_pinned.
Eval vm_compute in "ASSUMPTIONS c18_modelled_functions_unchanged_tables_op". Print Assumptions c18_modelled_functions_unchanged_tables_op.
Eval vm_compute in "ASSUMPTIONS c18_modelled_functions_unchanged_tables_req". Print Assumptions c18_modelled_functions_unchanged_tables_req.
Eval vm_compute in "ASSUMPTIONS c18_modelled_functions_unchanged_tables_info". Print Assumptions c18_modelled_functions_unchanged_tables_info.
Eval vm_compute in "ASSUMPTIONS c18_feature_table_unchanged". Print Assumptions c18_feature_table_unchanged.
