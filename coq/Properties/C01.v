(* C01 - CTAP2 request decoding is faithful to the specification's parameter tables. *)
From Ctap Require Import Base Schema Wire Utf8 Typed Procs Inst Tables ProcTables Finite CborItem WireP SkipP TypedP EntriesP FramingP C11P WellTyped SerP RoundTripP ObRequestSide ObOpTables ObEnvRt AgreeP ObRequestAgree FnShapes Shapes ObShapeRequest Deps ObDeps ObShapeStrings ObShapeFilters ObShapeTablesOp ObShapeTablesReq.
Local Open Scope string_scope.
Local Open Scope Z_scope.

(* tie to the source: every deserialisable declaration regenerated from /repo - key of every member
   (serde-indexed position + offset, serde rename / rename_all), wire type and capacity, required or
   optional, aliases, lossy helper - equals the specification's parameter table, for all feature sets *)
Theorem c01_generated_conforms :
  forallb (fun f => request_side_conforms (gen_env f) (spec_env f)) all_feats = true.
Proof. exact generated_request_side. Qed.

(* which type each parameter-bearing command byte is decoded as, in every feature configuration *)
Theorem c01_generated_route : forall f b, In f all_feats -> 0 <= b < 256 ->
  route_of (gen_tables f) b = spec_route b.
Proof. exact generated_route. Qed.

Theorem c01_routes :
  spec_route 0x01 = RtDecode "MakeCredential" (TNamed "ctap2::make_credential::Request") /\
  spec_route 0x02 = RtDecode "GetAssertion" (TNamed "ctap2::get_assertion::Request") /\
  spec_route 0x06 = RtDecode "ClientPin" (TNamed "ctap2::client_pin::Request") /\
  spec_route 0x0A = RtDecode "CredentialManagement" (TNamed "ctap2::credential_management::Request") /\
  spec_route 0x41 = RtDecode "CredentialManagement" (TNamed "ctap2::credential_management::Request") /\
  spec_route 0x0C = RtDecode "LargeBlobs" (TNamed "ctap2::large_blobs::Request").
Proof. repeat split; reflexivity. Qed.

(* decoding a parameter-bearing command is decoding its parameter map with the typed decoder:
   success delivers exactly the decoded record, trailing bytes are ignored *)
Theorem c01_decode_is_typed_decode : forall e b d v t x r, 0 <= b < 256 ->
  spec_route b = RtDecode v t -> decode e t d = Ok (x, r) ->
  request_deserialize spec_tables e (b :: d) = ROk (ReqBody v x).
Proof.
  intros e b d v t x r Hb Hr Hd. cbn [request_deserialize].
  rewrite (route_of_spec b Hb), Hr. cbn [run_route]. rewrite Hd. reflexivity.
Qed.

(* Integer-keyed parameter maps (every ctap2::*::Request, HmacSecretInput, SubcommandParameters): for ANY
   environment, ANY member list fs, and an entry list in ANY order whose members are pairwise distinct, each
   encoded as  key || value  where the value's encoding decodes (element decoder, hypothesis idx_entry_ok)
   to the entry's value: the map decodes to the record holding under each member EXACTLY the value sent
   under its key, and VNone for every optional member that was not sent.  No value is attributed to another
   member, altered or dropped.  (Generic in the environment, so it holds for spec_env f for every f.) *)
Theorem c01_indexed_map_faithful : forall e k name s d fs entries rest,
  lookup e name = Some (DStruct true s d fs) ->
  Forall (idx_entry_ok (dec e k) fs) entries ->
  NoDup (map en_label entries) ->
  (forall fd, In fd fs -> f_opt fd = false -> In (f_label fd) (map en_label entries)) ->
  blen entries < 4294967296 ->
  dec e (S k) (TNamed name) (put_head 5 (blen entries) ++ List.concat (map enc_idx_entry entries) ++ rest)%list
  = Ok (VRec (map (fun fd => (f_label fd, match sent_value entries fd with Some v => v | None => VNone end)) fs), rest).
Proof. exact dec_indexed_struct. Qed.

(* Text-keyed nested dictionaries (rp, user, options, extensions, descriptors, parameters): the same, for
   entries in any order, with any unknown members in between *)
Theorem c01_text_map_faithful : forall e k name s d fs tes rest,
  lookup e name = Some (DStruct false s d fs) ->
  Forall (txt_entry_ok (dec e k) fs) tes ->
  NoDup (map en_label (known_entries tes)) ->
  (forall fd, In fd fs -> f_opt fd = false -> In (f_label fd) (map en_label (known_entries tes))) ->
  blen tes < 4294967296 ->
  dec e (S k) (TNamed name) (put_head 5 (blen tes) ++ List.concat (map enc_txt_entry tes) ++ rest)%list
  = Ok (VRec (txt_record fs tes), rest).
Proof. exact dec_text_struct. Qed.

(* WHOLE REQUESTS.  For every parameter-bearing command, every parameter value that is well-typed for the
   command's parameter table (any subset of optional parameters, any sizes within the limits, nested
   dictionaries and lists of any length) and ANY trailing bytes: the request decodes to the command's
   variant carrying EXACTLY that value - no parameter dropped, altered or attributed to another member -
   at the specification tables ... *)
Theorem c01_spec_declarations_wellformed : forallb (fun f => env_rt (spec_env f)) all_feats = true.
Proof. vm_compute. reflexivity. Qed.

Theorem c01_request_faithful : forall f b variant t v enc trailing,
  In f all_feats -> 0 <= b < 256 -> spec_route b = RtDecode variant t ->
  wt (spec_env f) type_fuel t v = true -> encode (spec_env f) t v = Some enc ->
  request_deserialize spec_tables (spec_env f) (b :: enc ++ trailing)%list = ROk (ReqBody variant v).
Proof.
  intros f b variant t v enc trailing Hf Hb Hr W H.
  apply (c01_decode_is_typed_decode (spec_env f) b (enc ++ trailing)%list variant t v trailing Hb Hr).
  apply decode_encode; [|exact W|exact H].
  exact (forallb_In (fun f => env_rt (spec_env f)) all_feats f c01_spec_declarations_wellformed Hf).
Qed.

(* ... and at the declarations and tables regenerated from /repo *)
Theorem c01_generated_request_faithful : forall f b variant t v enc trailing,
  In f all_feats -> 0 <= b < 256 -> spec_route b = RtDecode variant t ->
  wt (gen_env f) type_fuel t v = true -> encode (gen_env f) t v = Some enc ->
  request_deserialize (gen_tables f) (gen_env f) (b :: enc ++ trailing)%list = ROk (ReqBody variant v).
Proof.
  intros f b variant t v enc trailing Hf Hb Hr W H.
  cbn [request_deserialize]. rewrite (generated_route f b Hf Hb), Hr. cbn [run_route].
  rewrite (decode_encode (gen_env f) t v enc trailing
             (forallb_In (fun f => env_rt (gen_env f)) all_feats f generated_env_rt Hf) W H).
  reflexivity.
Qed.

(* THE MODEL AT THE REGENERATED DECLARATIONS IS THE MODEL AT THE SPECIFICATION TABLES.  The codec consults an
   environment only through the declarations reachable from the type at hand (AgreeP.dec_agree, by induction
   over the codec incl. all element loops).  On the names a request can reach - a set closed under "refers
   to" - the declarations regenerated from /repo are the specification's (kernel-evaluated for all 32 feature
   sets on every run), as are the command routing and the error-status tables.  Hence, for EVERY message,
   ctap2::Request::deserialize modelled at the regenerated source equals the one modelled at the
   specification tables: every theorem and every differential observation about either is about both. *)
Theorem c01_generated_agreement :
  forallb (fun f => agreement_bundle spec_tables (gen_tables f) (spec_env f) (gen_env f) (request_names f) spec_route) all_feats = true.
Proof. exact generated_request_agreement. Qed.

Theorem c01_generated_model_is_spec_model : forall f d, In f all_feats ->
  (match d with b :: _ => 0 <= b < 256 | [] => True end) ->
  request_deserialize (gen_tables f) (gen_env f) d = request_deserialize spec_tables (spec_env f) d.
Proof.
  intros f d Hf Hd. symmetry.
  exact (request_models_agree spec_tables (gen_tables f) (spec_env f) (gen_env f) (request_names f) spec_route
           route_of_spec (fun b Hb => generated_route f b Hf Hb)
           (forallb_In (fun f => agreement_bundle spec_tables (gen_tables f) (spec_env f) (gen_env f) (request_names f) spec_route)
                       all_feats f generated_request_agreement Hf) d Hd).
Qed.

(* non-vacuity: a LargeBlobs request {3: 0, 1: 7} (keys out of order) satisfies the hypotheses *)
Example c01_ex_large_blobs :
  decode (spec_env []) (TNamed "ctap2::large_blobs::Request") [0xA2; 0x03; 0x00; 0x01; 0x07]
  = Ok (VRec [("get", VSome (VZ 7)); ("set", VNone); ("offset", VZ 0); ("length", VNone);
              ("pin_uv_auth_param", VNone); ("pin_uv_auth_protocol", VNone)], []).
Proof. vm_compute. reflexivity. Qed.

(* tie to the source for the hand-modelled procedural code: the bodies of these functions, as regenerated from
   /repo now, have the shape (literals, operators, calls, control flow, constants) the model was written against *)
Theorem c01_modelled_functions_unchanged_request : shapes_hold fn_shapes shapes_request = true.
Proof. exact generated_shapes_request. Qed.

(* the third-party crates the model represents by hand are pinned at the versions it was written against *)
Theorem c01_modelled_dependencies_pinned : deps_hold repo_lock_present lock_versions harness_lock_versions cargo_deps = true.
Proof. exact generated_deps. Qed.

(* further hand-modelled functions this property rests on *)
Theorem c01_modelled_functions_unchanged_strings : shapes_hold fn_shapes shapes_strings = true.
Proof. exact generated_shapes_strings. Qed.
Theorem c01_modelled_functions_unchanged_filters : shapes_hold fn_shapes shapes_filters = true.
Proof. exact generated_shapes_filters. Qed.

(* lookup tables, accessors, builders and further generators this property rests on *)
Theorem c01_modelled_functions_unchanged_tables_op : shapes_hold fn_shapes shapes_tables_op = true.
Proof. exact generated_shapes_tables_op. Qed.

Theorem c01_modelled_functions_unchanged_tables_req : shapes_hold fn_shapes shapes_tables_req = true.
Proof. exact generated_shapes_tables_req. Qed.

(* the cargo features are independent switches with nothing on by default: a feature set of the model means exactly its cfgs *)
Theorem c01_feature_table_unchanged : features_hold cargo_features = true.
Proof. exact generated_features. Qed.

Eval vm_compute in "ASSUMPTIONS c01_indexed_map_faithful". Print Assumptions c01_indexed_map_faithful.
Eval vm_compute in "ASSUMPTIONS c01_text_map_faithful". Print Assumptions c01_text_map_faithful.
Eval vm_compute in "ASSUMPTIONS c01_generated_conforms". Print Assumptions c01_generated_conforms.
Eval vm_compute in "ASSUMPTIONS c01_generated_route". Print Assumptions c01_generated_route.
Eval vm_compute in "ASSUMPTIONS c01_routes". Print Assumptions c01_routes.
Eval vm_compute in "ASSUMPTIONS c01_decode_is_typed_decode". Print Assumptions c01_decode_is_typed_decode.
Eval vm_compute in "ASSUMPTIONS c01_request_faithful". Print Assumptions c01_request_faithful.
Eval vm_compute in "ASSUMPTIONS c01_generated_request_faithful". Print Assumptions c01_generated_request_faithful.
Eval vm_compute in "ASSUMPTIONS c01_spec_declarations_wellformed". Print Assumptions c01_spec_declarations_wellformed.
Eval vm_compute in "ASSUMPTIONS c01_modelled_functions_unchanged_request". Print Assumptions c01_modelled_functions_unchanged_request.
Eval vm_compute in "ASSUMPTIONS c01_generated_agreement". Print Assumptions c01_generated_agreement.
Eval vm_compute in "ASSUMPTIONS c01_generated_model_is_spec_model". Print Assumptions c01_generated_model_is_spec_model.
Eval vm_compute in "ASSUMPTIONS c01_modelled_dependencies_pinned". Print Assumptions c01_modelled_dependencies_pinned.
Eval vm_compute in "ASSUMPTIONS c01_modelled_functions_unchanged_strings". Print Assumptions c01_modelled_functions_unchanged_strings.
Eval vm_compute in "ASSUMPTIONS c01_modelled_functions_unchanged_filters". Print Assumptions c01_modelled_functions_unchanged_filters.
Eval vm_compute in "ASSUMPTIONS c01_modelled_functions_unchanged_tables_op". Print Assumptions c01_modelled_functions_unchanged_tables_op.
Eval vm_compute in "ASSUMPTIONS c01_modelled_functions_unchanged_tables_req". Print Assumptions c01_modelled_functions_unchanged_tables_req.
Eval vm_compute in "ASSUMPTIONS c01_feature_table_unchanged". Print Assumptions c01_feature_table_unchanged.
