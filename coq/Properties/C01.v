(* C01 - CTAP2 request decoding is faithful to the specification's parameter tables. *)
From Ctap Require Import Base Schema Wire Typed Procs Inst Tables ProcTables Finite FramingP C11P.
Local Open Scope string_scope.
Local Open Scope Z_scope.

(* tie to the source: every deserialisable declaration regenerated from /repo - key of every member
   (serde-indexed position + offset, serde rename / rename_all), wire type and capacity, required or
   optional, aliases, lossy helper - equals the specification's parameter table, for all feature sets *)
Theorem c01_generated_conforms :
  forallb (fun f => request_side_conforms (gen_env f) (spec_env f)) all_feats = true.
Proof. exact generated_request_side. Qed.

(* which type each parameter-bearing command byte is decoded as, in every feature configuration *)
Theorem c01_generated_route : forall f b, In f all_feats -> 0 <= b < 256 ->
  route_of (gen_tables f) b = spec_route b.
Proof. exact generated_route. Qed.

Theorem c01_routes :
  spec_route 0x01 = RtDecode "MakeCredential" (TNamed "ctap2::make_credential::Request") /\
  spec_route 0x02 = RtDecode "GetAssertion" (TNamed "ctap2::get_assertion::Request") /\
  spec_route 0x06 = RtDecode "ClientPin" (TNamed "ctap2::client_pin::Request") /\
  spec_route 0x0A = RtDecode "CredentialManagement" (TNamed "ctap2::credential_management::Request") /\
  spec_route 0x41 = RtDecode "CredentialManagement" (TNamed "ctap2::credential_management::Request") /\
  spec_route 0x0C = RtDecode "LargeBlobs" (TNamed "ctap2::large_blobs::Request").
Proof. repeat split; reflexivity. Qed.

(* decoding a parameter-bearing command is decoding its parameter map with the typed decoder:
   success delivers exactly the decoded record, trailing bytes are ignored *)
Theorem c01_decode_is_typed_decode : forall e b d v t x r, 0 <= b < 256 ->
  spec_route b = RtDecode v t -> decode e t d = Ok (x, r) ->
  request_deserialize spec_tables e (b :: d) = ROk (ReqBody v x).
Proof.
  intros e b d v t x r Hb Hr Hd. cbn [request_deserialize].
  rewrite (route_of_spec b Hb), Hr. cbn [run_route]. rewrite Hd. reflexivity.
Qed.

Eval vm_compute in "ASSUMPTIONS c01_generated_conforms". Print Assumptions c01_generated_conforms.
Eval vm_compute in "ASSUMPTIONS c01_generated_route". Print Assumptions c01_generated_route.
Eval vm_compute in "ASSUMPTIONS c01_routes". Print Assumptions c01_routes.
Eval vm_compute in "ASSUMPTIONS c01_decode_is_typed_decode". Print Assumptions c01_decode_is_typed_decode.
