"""Type-directed generators over the specification environment dumped by the driver.

Two generators:
  * gen_val:  values of serialisable types in the Val text language (inputs of encty / enc2 / authdata)
  * gen_wire: CBOR trees that are well-formed messages for deserialisable types (inputs of dec2 / decty)
Generators only produce inputs; expected answers always come from the extracted model.
"""
from . import cbor

INT_EDGES = [0, 1, 23, 24, 255, 256, 65535, 65536, 2**32 - 1, 2**32, 2**63, 2**64 - 1]
# values that are somebody's default (message and fragment sizes, counts, protocol versions): code that special-cases 'the default' reacts
# to exactly one of them
INT_DEFAULTS = [2, 3, 4, 6, 8, 10, 16, 32, 63, 64, 128, 1023, 1024, 1200, 2048, 3008, 3072, 4096, 7609]
INT_MAX = {"u8": 255, "u16": 65535, "u32": 2**32 - 1, "u64": 2**64 - 1, "usize": 2**64 - 1}


# ------------------------------------------------------------------ Val text
def show(v):
    k = v[0]
    if k == "i":
        return "i" + ("-%x" % -v[1] if v[1] < 0 else "%x" % v[1])
    if k == "b":
        return "b" + v[1].hex()
    if k == "s":
        return "s" + v[1].hex()
    if k == "B":
        return "T" if v[1] else "F"
    if k == "U":
        return "U"
    if k == "N":
        return "N"
    if k == "S":
        return "S(" + show(v[1]) + ")"
    if k == "L":
        return "[" + ",".join(show(x) for x in v[1]) + "]"
    if k == "R":
        return "{" + ";".join(f"{n}={show(x)}" for n, x in sorted(v[1], key=lambda p: p[0])) + "}"
    if k == "E":
        return "e:" + v[1]
    if k == "V":
        return f"v:{v[1]}({show(v[2])})"
    raise ValueError(v)


def utf8_text(rng, n):
    """valid UTF-8 of exactly n bytes (mix of 1..4 byte characters)"""
    out = bytearray()
    while len(out) < n:
        room = n - len(out)
        w = min(room, 1 + rng.below(4)) if rng.chance(1, 3) else 1
        if w == 1:
            out.append(0x20 + rng.below(0x5F))
        elif w == 2:
            out += chr(0x80 + rng.below(0x780)).encode()
        elif w == 3:
            cp = 0x800 + rng.below(0xF800)
            if 0xD800 <= cp <= 0xDFFF:
                cp = 0x20AC
            out += chr(cp).encode()
        else:
            out += chr(0x10000 + rng.below(0x100000)).encode()
    return bytes(out)


_NOVEL = None


def _literal_counts(root):
    import collections, glob, os, re
    out = {}
    for f in sorted(glob.glob(os.path.join(root, "src", "**", "*.rs"), recursive=True)):
        try:
            t = re.sub(r"//[^\n]*", "", open(f).read())
        except OSError:
            continue
        c = collections.Counter()
        for m in re.finditer(r"(?<![A-Za-z_0-9.])(0x[0-9a-fA-F_]+|[0-9][0-9_]*)(?:usize|u8|u16|u32|u64|i32|i8|i64)?(?![A-Za-z0-9.])", t):
            x = m.group(1).replace("_", "")
            try:
                c[int(x, 16) if x.startswith("0x") else int(x)] += 1
            except ValueError:
                pass
        out[os.path.relpath(f, root)] = {str(k): v for k, v in c.items()}
    return out


def novel_literals():
    """Integer literals (2..70000) that some file of /repo/src mentions more often now than at the pinned commit
    (lib/literals_baseline.json: occurrences per file): the thresholds, limits and identifiers a change brought in.  Empty on the
    unchanged tree, where nothing below changes.  Used only to aim the search for a failing input (lengths and integers at n-1, n,
    n+1 for each of them); the verdict never rests on it."""
    global _NOVEL
    if _NOVEL is not None:
        return _NOVEL
    import json, os
    from . import core
    try:
        base = json.load(open(os.path.join(os.path.dirname(os.path.abspath(__file__)), "literals_baseline.json")))
    except OSError:
        _NOVEL = []
        return _NOVEL
    found = set()
    for f, c in _literal_counts(core.REPO).items():
        b = base.get(f, {})
        for k, v in c.items():
            if v > b.get(k, 0):
                found.add(int(k))
    _NOVEL = sorted(v for v in found if 2 <= v <= 70000)
    return _NOVEL


def novel_sizes(limit=None):
    out = []
    for v in novel_literals():
        for d in (-1, 0, 1):
            if v + d >= 0 and (limit is None or v + d <= limit) and v + d not in out:
                out.append(v + d)
    return out


def pick_len(rng, cap, focus=False):
    if cap <= 0:
        return 0
    nv = novel_sizes(cap)
    if nv and rng.chance(1, 4):
        return rng.choice(nv)
    if focus:
        return rng.choice([0, 1, max(0, cap - 1), cap])
    r = rng.below(10)
    if r == 0:
        return 0
    if r == 1:
        return cap
    if r == 2:
        return max(0, cap - 1)
    return rng.below(min(cap, 40) + 1)


def gen_bytes(rng, n):
    """n bytes; one time in four they begin with a self-describing header (DER SEQUENCE / OCTET STRING with short, one- and two-byte
    lengths, CBOR byte-string / map heads) whose declared length is exactly, less than or more than what follows: code that 'tidies'
    certificates, keys or nested CBOR reacts only to such content, never to uniformly random bytes"""
    if n < 4 or not rng.chance(1, 4):
        return rng.bytes(n)
    body = n - 4
    decl = rng.choice([body, body, max(0, body - 1), max(0, body - 16), body + 1, body + 420, 0, 0xFFFF])
    kind = rng.below(6)
    if kind <= 2:
        head = bytes([0x30, 0x82]) + (decl & 0xFFFF).to_bytes(2, "big")
    elif kind == 3:
        head = bytes([0x30, 0x81, decl & 0xFF, 0x02])
    elif kind == 4:
        head = bytes([0x59]) + (decl & 0xFFFF).to_bytes(2, "big") + b"\x00"
    else:
        head = bytes([0x04, 0x82]) + (decl & 0xFFFF).to_bytes(2, "big")
    return head + rng.bytes(n - 4)


def pick_int(rng, maxv, focus=False):
    nv = novel_sizes(maxv)
    if nv and rng.chance(1, 4):
        return rng.choice(nv)
    if rng.chance(1, 4):
        ds = [e for e in INT_DEFAULTS if e <= maxv]
        if ds:
            return rng.choice(ds)
    edges = [e for e in INT_EDGES if e <= maxv] + [maxv, max(0, maxv - 1)]
    if focus or rng.chance(1, 2):
        return rng.choice(edges)
    return rng.below(maxv + 1)


class Gen:
    def __init__(self, schema, rng, tier="quick", canonical=False):
        self.s = schema
        self.rng = rng
        self.tier = tier
        # canonical: only lossless, canonically encoded wire values (no over-long names, no unknown
        # algorithms, no aliases): reference encodings for bytes -> value -> bytes round trips
        self.canonical = canonical

    # ---------------------------------------------------------- values (encode side)
    def val(self, ty, present=None, focus=False, depth=0):
        """present: None = random subset of optional members; 'all' / 'none'; or a set of labels (top level only)"""
        rng = self.rng
        k = ty[0]
        if k in INT_MAX:
            return ("i", pick_int(rng, INT_MAX[k], focus))
        if k == "i8":
            return ("i", rng.choice([0, 1, -1, 127, -128, 23, 24, -24, -25]))
        if k == "i32":
            return ("i", rng.choice([0, -1, -7, -8, -257, 23, 24, -24, -25, 255, 256, -256, -65536, -65537, 65535, 65536, 2**31 - 1, -(2**31), rng.below(2**32) - 2**31]))
        if k == "bool":
            return ("B", rng.chance(1, 2))
        if k == "unit":
            return ("U",)
        if k in ("bytesref", "sliceref"):
            return ("b", gen_bytes(rng, pick_len(rng, 64, focus)))
        if k == "bytescap":
            return ("b", gen_bytes(rng, pick_len(rng, ty[1], focus)))
        if k in ("bytearr", "bytearrref", "arr", "arrref"):
            return ("b", rng.bytes(ty[1]))
        if k == "strref":
            return ("s", utf8_text(rng, pick_len(rng, 64, focus)))
        if k == "strcap":
            n_ = pick_len(rng, ty[1], focus)
            return ("s", prefixed_text(rng, n_) if rng.chance(1, 5) else utf8_text(rng, n_))
        if k == "vec":
            n = pick_len(rng, ty[2], focus)
            return ("L", [self.val(ty[1], present if present in ("all", "none") else None, False, depth + 1) for _ in range(n)])
        if k == "opt":
            if present == "none":
                return ("N",)
            if present == "all" or rng.chance(1, 2):
                return ("S", self.val(ty[1], present if present in ("all", "none") else None, focus, depth + 1))
            return ("N",)
        if k == "named":
            return self.named_val(ty[1], present, focus, depth)
        raise ValueError(ty)

    def named_val(self, name, present=None, focus=False, depth=0):
        rng = self.rng
        d = self.s[name]
        if d["kind"] == "struct":
            fs = []
            for f in d["fields"]:
                fty = f["ty"]
                if fty[0] == "opt":
                    if isinstance(present, (set, frozenset)):
                        on = f["label"] in present
                        sub = None
                    elif present == "all":
                        on, sub = True, "all"
                    elif present == "none":
                        on, sub = False, "none"
                    else:
                        on, sub = rng.chance(1, 2), None
                    # types that cannot be built outside the crate
                    if fty[1] == ("named", "ctap2::make_credential::UnsignedExtensionOutputs"):
                        on = False
                    if f["skip_ser"] and isinstance(present, (set, frozenset)):
                        on = False
                    fs.append((f["label"], ("S", self.val(fty[1], sub, focus, depth + 1)) if on else ("N",)))
                else:
                    sub = present if present in ("all", "none") else None
                    fs.append((f["label"], self.val(fty, sub, focus, depth + 1)))
            # coinciding members: one time in three a present member takes the value of another present member of the same type
            # (name = displayName, challenge = appId, ...): independently drawn values practically never coincide
            if rng.chance(1, 3):
                inner = {f["label"]: (f["ty"][1] if f["ty"][0] == "opt" else f["ty"]) for f in d["fields"]}
                live = [(j, l, v) for j, (l, v) in enumerate(fs) if v != ("N",)]
                TXT, BYT = ("strcap", "strref"), ("bytescap", "bytesref")

                def compatible(x, y, val):
                    if x == y and x[0] in TXT + BYT + ("bytearr", "bytearrref"):
                        return True
                    # text into text / bytes into bytes of another capacity when the value fits (rp name = rp id, ...)
                    same = (x[0] in TXT and y[0] in TXT) or (x[0] in BYT and y[0] in BYT)
                    return same and (y[0] in ("strref", "bytesref") or len(val[1]) <= y[1])
                cands = []
                for a in live:
                    for b in live:
                        if a[0] != b[0]:
                            src = a[2][1] if a[2][0] == "S" else a[2]
                            if compatible(inner[a[1]], inner[b[1]], src):
                                cands.append((a, b))
                if cands:
                    a, b = rng.choice(cands)
                    src = a[2][1] if a[2][0] == "S" else a[2]
                    # ... or ALMOST the value: equal up to ASCII case, a trailing dot / space, one character more or less
                    if src[0] == "s" and not self.canonical and rng.chance(1, 2):
                        t = bytes(src[1])
                        t2 = rng.choice([t.upper(), t.lower(), t.swapcase(), t[:1].upper() + t[1:], t + b".", t + b" ", t[:-1]])
                        tgt = inner[b[1]]
                        if tgt[0] == "strref" or len(t2) <= tgt[1]:
                            try:
                                t2.decode("utf-8")
                                src = ("s", t2)
                            except UnicodeDecodeError:
                                pass
                    fs[b[0]] = (b[1], ("S", src) if b[2][0] == "S" else src)
            return ("R", fs)
        if d["kind"] == "strenum":
            return ("E", rng.choice(d["variants"])[0])
        if d["kind"] == "repr":
            return ("E", rng.choice(d["variants"])[0])
        if d["kind"] == "untagged":
            vn, vty = rng.choice(d["variants"])
            return ("V", vn, self.val(vty, present if present in ("all", "none") else None, focus, depth + 1))
        if d["kind"] == "custom":
            if name == "webauthn::Icon":
                return ("U",)
            if name == "webauthn::FilteredPublicKeyCredentialParameters":
                n = rng.below(3)
                return ("L", [("R", [("alg", ("i", rng.choice([-7, -8])))]) for _ in range(n)])
            if name == "ext::PublicKey":
                kind = rng.choice(["P256Key", "EcdhEsHkdf256Key", "Ed25519Key", "TotpKey"])
                xl = rng.choice([32, 32, 32, 0, 1, 31])
                yl = rng.choice([32, 32, 32, 0, 1, 31])
                if kind in ("P256Key", "EcdhEsHkdf256Key"):
                    return ("V", kind, ("R", [("x", ("b", rng.bytes(xl))), ("y", ("b", rng.bytes(yl)))]))
                if kind == "Ed25519Key":
                    return ("V", kind, ("R", [("x", ("b", rng.bytes(xl)))]))
                return ("V", kind, ("R", []))
            if name == "ext::EcdhEsHkdf256PublicKey":
                return ("R", [("x", ("b", rng.bytes(rng.choice([32, 32, 0, 31])))), ("y", ("b", rng.bytes(rng.choice([32, 32, 0, 31]))))])
        raise ValueError(name)

    def optional_labels(self, name):
        return [f["label"] for f in self.s[name]["fields"] if f["ty"][0] == "opt" and not f["skip_ser"]
                and f["ty"][1] != ("named", "ctap2::make_credential::UnsignedExtensionOutputs")]

    # ---------------------------------------------------------- wire trees (decode side)
    def wire(self, ty, present=None, focus=False, depth=0):
        """a CBOR tree that is a well-formed encoding for `ty` according to the specification tables"""
        rng = self.rng
        k = ty[0]
        if k in INT_MAX:
            return pick_int(rng, INT_MAX[k], focus)
        if k == "i8":
            return rng.choice([0, 1, -1, 127, -128])
        if k == "i32":
            return rng.choice([0, -1, -7, -8, -257, 23, 24, -24, -25, 255, 256, -256, 65535, 65536, 2**31 - 1, -(2**31), rng.below(2**32) - 2**31])
        if k == "bool":
            return rng.chance(1, 2)
        if k == "unit":
            return None
        if k == "bytesref":
            return gen_bytes(rng, pick_len(rng, 300 if rng.chance(1, 8) else 48, focus))
        if k == "bytescap":
            return gen_bytes(rng, pick_len(rng, ty[1], focus))
        if k in ("bytearrref", "bytearr"):
            return rng.bytes(ty[1])
        if k == "strref":
            return cbor.T(utf8_text(rng, pick_len(rng, 300 if rng.chance(1, 8) else 48, focus)))
        if k == "strcap":
            n_ = pick_len(rng, ty[1], focus)
            return cbor.T(prefixed_text(rng, n_) if rng.chance(1, 5) else utf8_text(rng, n_))
        if k == "vec":
            n = pick_len(rng, ty[2], focus)
            return [self.wire(ty[1], None, False, depth + 1) for _ in range(n)]
        if k == "opt":
            return self.wire(ty[1], present, focus, depth + 1)
        if k == "named":
            return self.named_wire(ty[1], present, focus, depth)
        raise ValueError(ty)

    def lossy_text(self, cap, focus):
        rng = self.rng
        if self.canonical:
            return cbor.T(utf8_text(rng, rng.choice([0, 1, cap - 1, cap, rng.below(cap + 1)])))
        n = rng.choice([0, 1, cap - 1, cap, cap + 1, cap + 2, cap + 3, cap + 4, 2 * cap, 300]) if (focus or rng.chance(1, 3)) else rng.below(cap + 8)
        return cbor.T(utf8_text(rng, n))

    def named_wire(self, name, present=None, focus=False, depth=0):
        rng = self.rng
        d = self.s[name]
        if d["kind"] == "struct":
            pairs = []
            for f in d["fields"]:
                fty = f["ty"]
                optional = f["opt"]
                if optional:
                    if isinstance(present, (set, frozenset)):
                        on = f["label"] in present
                    elif present == "all":
                        on = True
                    elif present == "none":
                        on = False
                    else:
                        on = rng.chance(1, 2)
                    if not on:
                        continue
                sub = present if present in ("all", "none") else None
                if f["with"] == "deserialize_from_str_and_truncate":
                    v = self.lossy_text(64, focus)
                elif f["with"] == "deserialize_from_str_and_skip_if_too_long":
                    v = self.lossy_text(128, focus)
                else:
                    v = self.wire(fty[1] if (fty[0] == "opt") else fty, sub, focus, depth + 1)
                key = f["key"]
                if f["aliases"] and not self.canonical and rng.chance(1, 3):
                    key = rng.choice(f["aliases"])
                pairs.append((key, v))
            return cbor.M(pairs)
        if d["kind"] == "strenum":
            return rng.choice(d["variants"])[1]
        if d["kind"] == "repr":
            return rng.choice(d["variants"])[1]
        if d["kind"] == "custom":
            if name == "webauthn::Icon":
                return cbor.T(utf8_text(rng, rng.choice([0, 1, 20, 128, 129, 400])))
            if name == "webauthn::FilteredPublicKeyCredentialParameters" and self.canonical:
                return [cbor.M([("alg", rng.choice([-7, -8])), ("type", "public-key")]) for _ in range(rng.below(3))]
            if name == "webauthn::FilteredPublicKeyCredentialParameters":
                n = rng.choice([0, 1, 2, 3, 4, 7, 13]) if not rng.chance(1, 12) else rng.below(40)
                out = []
                for _ in range(n):
                    # COSE algorithm identifiers: the two known ones, every registered neighbour, range ends
                    alg = rng.choice([-7, -8, -7, -8, -257, -35, 0, 1, -9, 2**31 - 1, -(2**31)]) if rng.chance(2, 3) else rng.choice(list(range(-70, 8)) + [-65535, -259, -258, -256, 256])
                    t = rng.choice(["public-key", "public-key", "public-key", "private-key", "", "x" * 32])
                    pr = [("alg", alg), ("type", t)]
                    out.append(cbor.M(pr if rng.chance(2, 3) else pr[::-1]))
                return out
            if name == "ctap2::AttestationFormatsPreference":
                n = rng.below(6) if not rng.chance(1, 6) else 6 + rng.below(6)
                return [rng.choice(["packed", "none", "tpm", "android-key", "Packed", ""]) for _ in range(n)]
            if name == "ext::EcdhEsHkdf256PublicKey":
                return cbor.M([(1, 2), (3, -25), (-1, 1), (-2, rng.bytes(rng.choice([32, 32, 32, 0, 31]))), (-3, rng.bytes(rng.choice([32, 32, 32, 0, 31])))])
        raise ValueError(name)

    def optional_wire_labels(self, name):
        return [f["label"] for f in self.s[name]["fields"] if f["opt"]]


def utf8_reps():
    """one representative character of every UTF-8 lead byte C2..F4 plus the first / last code points of special ranges"""
    reps = []
    for lead in range(0xC2, 0xF5):
        if lead < 0xE0:
            reps.append(bytes([lead, 0x80 + (lead % 0x40)]).decode())
        elif lead < 0xF0:
            second = 0xA0 if lead == 0xE0 else (0x9F if lead == 0xED else 0x80 + (lead % 0x20))
            reps.append(bytes([lead, second, 0xBF]).decode())
        else:
            second = 0x90 if lead == 0xF0 else (0x8F if lead == 0xF4 else 0xA0)
            reps.append(bytes([lead, second, 0x80, 0xBF]).decode())
    reps += ["\u007f", "\u0080", "\u07ff", "\u0800", "\ud7ff", "\ue000", "\uf000", "\uf8ff", "\ufeff", "\uff01", "\ufffd", "\uffff",
             "\U00010000", "\U000e0001", "\U000e0020", "\U000e0065", "\U000e007e", "\U000e007f", "\U000f0000", "\U0010ffff"]
    # characters that text-processing code singles out: whitespace and controls, joiners and other zero-width / bidi format
    # characters, combining marks, variation selectors, emoji modifiers and regional indicators, separators, keycap
    reps += [" ", "\t", "\n", "\r", "\u0000", "\u0085", "\u009f", "\u00a0", "\u00ad", "\u0300", "\u0301", "\u036f", "\u061c", "\u180e",
             "\u200b", "\u200c", "\u200d", "\u200e", "\u200f", "\u2028", "\u2029", "\u202a", "\u202e", "\u2060", "\u2066", "\u2069",
             "\u20e3", "\u3000", "\ufe00", "\ufe0e", "\ufe0f", "\ufff9", "\ufffc", "\U0001f1e6", "\U0001f1ff", "\U0001f3fb", "\U0001f3ff",
             "\U000e0100", "\U000e01ef", "\U0001f468", "\U0001f600"]
    return reps


TEXT_PREFIXES = ["data:", "data:image/png;base64,", "http://", "https://", "javascript:", "file:///", "//", "#", "?", "/", "./", "../", "\\\\", "%00",
                 "mailto:", "urn:", "about:blank", "<", "&amp;", "{", "[", "\"", "'", " ", "\t", "0x", "-", "+", "null", "true"]


def prefixed_text(rng, n):
    """text of n bytes that starts with something a 'smart' helper might single out (a URL scheme, markup, quoting, literals)"""
    p = rng.choice(TEXT_PREFIXES).encode()
    if len(p) > n:
        return utf8_text(rng, n)
    return p + utf8_text(rng, n - len(p))


def subsets_or_sample(labels, rng, limit):
    """all subsets if 2^k <= limit, else empty + singletons + pairs + full + random"""
    k = len(labels)
    if 2**k <= limit:
        return [frozenset(l for i, l in enumerate(labels) if m >> i & 1) for m in range(2**k)]
    out = [frozenset(), frozenset(labels)]
    out += [frozenset([l]) for l in labels]
    out += [frozenset([a, b]) for i, a in enumerate(labels) for b in labels[i + 1 :]]
    while len(out) < limit:
        out.append(frozenset(l for l in labels if rng.chance(1, 2)))
    return out[:max(limit, len(out))]


# ---------------------------------------------------------------- members the source declares but the specification does not know
def novel_members(schema, feats):
    """Reads coq/Gen/Generated.v (the declarations regenerated from /repo's source by the translator) and returns, for every
    text-keyed structure of the specification, the members the SOURCE declares under the feature set `feats` whose key the
    specification tables do not list: [(struct name, key, sample wire value)].  Empty on the unchanged tree.  Used only to aim the
    search for a failing input when a declaration obligation no longer holds; the verdict never rests on it."""
    import os, re
    path = os.path.join(os.path.dirname(os.path.dirname(os.path.abspath(__file__))), "coq", "Gen", "Generated.v")
    try:
        text = open(path).read()
    except OSError:
        return []

    def cfg_true(c):
        c = c.strip()
        if c == "CTrue":
            return True
        m = re.fullmatch(r'\(?CFeat "([^"]*)"\)?', c)
        if m:
            return m.group(1) in feats
        m = re.fullmatch(r"\(CNot (.*)\)", c)
        if m:
            return not cfg_true(m.group(1))
        return True          # unknown shape: assume present

    def camel(n):
        parts = n.split("_")
        return parts[0] + "".join(p[:1].upper() + p[1:] for p in parts[1:])

    def sample(ty):
        ty = ty.strip()
        if ty.startswith("(TOpt "):
            return sample(ty[6:-1])
        if ty == "TBool":
            return True
        if ty in ("TU8", "TU16", "TU32", "TU64", "TUsize", "TI32", "TI8"):
            return 1
        if ty.startswith("(TBytesCap") or ty == "TBytesRef":
            return b"\x01"
        if ty.startswith("(TStrCap") or ty == "TStrRef":
            return "a"
        return None

    out = []
    for m in re.finditer(r'RStruct \{\| rs_name := "([^"]+)"; rs_kind := \(KTxt (None|\(Some "([^"]*)"\))\);.*?rs_fields := \[(.*?)\] \|\}\)', text, re.S):
        name, ra, body = m.group(1), m.group(3), m.group(4)
        d = schema.get(name)
        if not d or d.get("kind") != "struct" or d.get("idx"):
            continue
        known = set()
        for f in d["fields"]:
            known.add(f["key"])
            known.update(f["aliases"])
        for fm in re.finditer(r'\{\| rf_name := "([^"]+)"; rf_cfg := (.*?); rf_ty := (.*?); rf_attrs := \[(.*?)\]; rf_pub', body, re.S):
            fname, cfg, ty, attrs = fm.groups()
            if not cfg_true(cfg):
                continue
            rn = re.search(r'ARename "([^"]*)"', attrs)
            key = rn.group(1) if rn else (camel(fname) if ra == "camelCase" else fname)
            if key not in known:
                v = sample(ty)
                if v is not None:
                    out.append((name, key, v))
    return out


# ---------------------------------------------------------------- strings that collide with a name under a common 32-bit hash
_COLL_CACHE = {}


def hash_collisions(name, same_length=True, per_hash=1):
    """strings != name with the same FNV-1a / FNV-1 / djb2 hash (32 bit), found by meet-in-the-middle over the last six characters
    (each step of these hashes is invertible modulo 2^32); with same_length the result has the length of the name and shares its
    prefix, otherwise it is a 6-character string.  A dispatch on a hash (with or without the length) instead of on the string
    accepts them."""
    key = (name, same_length, per_hash)
    if key in _COLL_CACHE:
        return _COLL_CACHE[key]
    import itertools
    M = 0xFFFFFFFF
    alpha = b"abcdefghijklmnopqrstuvwxyzABCDEFGHIJKLMNOPQRSTUVWXYZ0123456789"
    nb = name.encode()
    prefix = nb[:-6] if (same_length and len(nb) >= 6) else b""
    if same_length and len(nb) < 6:
        _COLL_CACHE[key] = []
        return []
    P = 16777619
    Pinv = pow(P, -1, 2**32)
    i33 = pow(33, -1, 2**32)
    fams = [(lambda h, c: ((h ^ c) * P) & M, lambda h, c: ((h * Pinv) & M) ^ c, 2166136261),
            (lambda h, c: ((h * P) & M) ^ c, lambda h, c: (((h ^ c) * Pinv) & M), 2166136261),
            (lambda h, c: (h * 33 + c) & M, lambda h, c: ((h - c) * i33) & M, 5381)]
    out = []
    for step, unstep, basis in fams:
        target = basis
        for c in nb:
            target = step(target, c)
        h0 = basis
        for c in prefix:
            h0 = step(h0, c)
        fwd = {}
        for pre in itertools.product(alpha, repeat=3):
            h = h0
            for c in pre:
                h = step(h, c)
            fwd.setdefault(h, bytes(pre))
        found = 0
        for suf in itertools.product(alpha, repeat=3):
            h = target
            for c in reversed(suf):
                h = unstep(h, c)
            if h in fwd:
                cand = prefix + fwd[h] + bytes(suf)
                if cand != nb:
                    out.append(cand.decode())
                    found += 1
                    if found >= per_hash:
                        break
    _COLL_CACHE[key] = out
    return out


def novel_spellings(schema):
    """Reads coq/Gen/Generated.v and returns, for every string-identified enumeration of the specification, the spellings the
    SOURCE's two conversion tables and string constants mention that the specification does not list: [(type name, spelling)].
    Empty on the unchanged tree.  Used only to aim the search for a failing input when a table obligation no longer holds."""
    import os, re
    path = os.path.join(os.path.dirname(os.path.dirname(os.path.abspath(__file__))), "coq", "Gen", "Generated.v")
    try:
        text = open(path).read()
    except OSError:
        return []
    out = []
    for name, d in schema.items():
        if d.get("kind") != "strenum":
            continue
        known = {sp for _, sp in d["variants"]}
        short = name.split("::")[-1]
        mod = "::".join(name.split("::")[:-1])
        found = []
        for m in re.finditer(r'RMatch "' + re.escape(mod) + r'::(?:TryFrom<&str> for ' + re.escape(short) + r'|From<' + re.escape(short) + r'> for &str)" \[(.*?)\]\)', text, re.S):
            found += re.findall(r'M[PB]_Str "([^"]*)"', m.group(1))
        found += re.findall(r'\("' + re.escape(name) + r'::[A-Z0-9_]+", "([^"]*)"\)', text)
        for sp in found:
            if sp not in known and (name, sp) not in out:
                out.append((name, sp))
    return out


def der_ecdsa_sig(rng, shape=None):
    """a structurally exact DER ECDSA signature SEQUENCE { INTEGER r, INTEGER s }: each integer 1..33 bytes, minimal, with a redundant
    leading zero (next byte below 0x80), with the required leading zero (next byte 0x80 or above) or negative (first byte 0x80 or above);
    at most 72 bytes in all - what signing back ends really return, and what code that 'normalises' signatures reacts to"""
    def integer(kind):
        if kind == 0:      # minimal positive
            n = rng.choice([1, 20, 31, 32])
            return bytes([1 + rng.below(0x7F)]) + rng.bytes(n - 1)
        if kind == 1:      # required leading zero
            n = rng.choice([1, 31, 32])
            return b"\x00" + bytes([0x80 + rng.below(0x80)]) + rng.bytes(n - 1)
        if kind == 2:      # redundant leading zero
            n = rng.choice([1, 30, 31, 32])
            return b"\x00" + bytes([rng.below(0x80)]) + rng.bytes(n - 1)
        n = rng.choice([1, 32])   # negative
        return bytes([0x80 + rng.below(0x80)]) + rng.bytes(n - 1)
    kr, ks = shape if shape else (rng.below(4), rng.below(4))
    r, s_ = integer(kr), integer(ks)
    body = b"\x02" + bytes([len(r)]) + r + b"\x02" + bytes([len(s_)]) + s_
    return b"\x30" + bytes([len(body)]) + body
