"""Generic check protocol (DESIGN section 7): translate, prove, audit, correspond, verdict, evidence."""
import importlib
import json
import os
import sys
import time

from . import core

TRUSTED_BASE = [
    "Coq 8.16.1 kernel including its bytecode VM (vm_compute is used for the reflexive obligations); native_compute is not used",
    "Axioms: none (every property theorem prints 'Closed under the global context'; checked on every run)",
    "translator/ (Rust, syn 2): transcribes declarations, attributes, cfg conditions, literals and the listed match tables of /repo/src into coq/Gen/Generated.v; interprets nothing",
    "Extraction: ExtrOcamlBasic + ExtrOcamlString only (bool, option, unit, list, prod, sumbool, sumor -> OCaml's; ascii -> char, string -> char list); no Extract Constant; numbers stay Coq positive/Z/nat; OCaml 4.13.1 and driver/main.ml (parsing/printing glue)",
    "harness/ (Rust value construction and printing), rustc/cargo",
    "Modelled, not verified (pinned third-party code represented by hand-written Gallina and tied only by the correspondence run): cbor-smol 0.5.1, serde-indexed 0.1.1, serde_derive 1.0.229, serde_repr 0.1.21, heapless 0.7.17, heapless-bytes 0.3.0, serde_bytes 0.11.19, cosey 0.3.2, iso7816 0.1.4, bitflags 1.3.2, core::str::from_utf8; usize = 64 bit",
    "Procedural function bodies of ctap-types are hand-modelled (coq/Model/Procs.v, Typed.v, Utf8.v); declarations and match tables are regenerated from source on every run",
    "coq/Spec/*.v: hand transcription of the CTAP 2.0/2.1/2.2, WebAuthn, U2F raw-message and RFC 8949 texts",
]


def load_prop(pid):
    return importlib.import_module(f"lib.props.{pid.lower()}")


def run_check(pid, tier, seed, replay=None):
    t0 = time.time()
    prop = load_prop(pid)
    log = []
    problems = []  # things that broke: (kind, text)
    rng = core.SplitMix(seed).fork(pid)

    # 1. translate
    tr = core.translate()
    if not tr.get("ok"):
        problems.append(("translator", tr.get("error", "")))
    elif tr.get("unknown", 0):
        problems.append(("translator", f"{tr['unknown']} items the translator could not read (RUnknown): " + "; ".join(tr.get("unknown_items", []))[:1500]))

    # 2. prove
    proof = {"ok": True, "theorems": [], "assumptions": {}, "wall": 0}
    if getattr(prop, "PROP_FILE", None):
        proof = core.coq_prop(prop.PROP_FILE)
        if not proof["ok"]:
            problems.append(("proof", "coq/Properties/%s.v does not check:\n%s" % (prop.PROP_FILE, proof["log"])))
        else:
            bad = core.assumptions_ok(proof["assumptions"])
            if bad:
                problems.append(("axioms", json.dumps(bad)))
            missing = [t for t in proof["theorems"] if t.startswith(pid.lower()) and not t.startswith(pid.lower() + "_ex") and t not in proof["assumptions"]]
            if missing:
                problems.append(("axioms", "no Print Assumptions for " + ", ".join(missing)))
    aud = core.audit_sources()
    if aud:
        problems.append(("audit", "; ".join(aud)))
    coqchk = None
    if tier == "thorough" and proof["ok"] and getattr(prop, "PROP_FILE", None):
        # independent re-check of the compiled property file and everything it depends on; prints the axioms
        coqchk = core.coqchk(prop.PROP_FILE)
        if not coqchk["ok"]:
            problems.append(("coqchk", coqchk["log"]))

    # 3. build model driver and implementation harness
    ok, msg = core.build_driver()
    if not ok:
        print(msg, file=sys.stderr)
        problems.append(("driver", msg))
    fsets = prop.feature_sets(tier)
    extra = tuple(getattr(prop, "EXTRA_FEATURES", ()))
    builds = core.build_harnesses(fsets, extra_features=extra)
    for k, (bok, bmsg) in builds.items():
        if not bok:
            problems.append(("harness", f"harness does not build against /repo with features [{k}]:\n{bmsg}"))

    # 4. correspondence
    mismatches = []
    known_hits = []
    stats = {"evaluations": 0, "distinct": set(), "classes": {}, "samples": [], "per_feature_set": {}}
    kf = core.known_findings()
    # the thorough tier repeats the whole correspondence with independent generator seeds (VERIF_THOROUGH_ROUNDS, default 4)
    rounds = 1 if (tier != "thorough" or replay) else max(1, int(os.environ.get("VERIF_THOROUGH_ROUNDS", "4")))
    for rnd in range(rounds if ok else 0):
        all_results = {}
        rrng = rng if rnd == 0 else rng.fork(f"round{rnd}")
        for fs in fsets:
            fk = core.featkey(list(fs) + list(extra))
            if not builds[fk][0]:
                continue
            schema = core.load_schema(fs)
            cases = []
            if replay:
                rp = json.load(open(replay))
                if rp.get("case"):
                    cases = [rp["case"]]
            else:
                cases = corpus_cases(pid, fs) + prop.cases(tier, rrng.fork('all' if getattr(prop, 'SAME_CASES_ALL_FEATURES', False) else fk), schema, fs)
            lines = [c for c in cases]
            m = core.run_model(lines, fs)
            i = core.run_impl(lines, fs, extra_features=extra)
            stats["per_feature_set"][fk] = stats["per_feature_set"].get(fk, 0) + len(lines)
            if hasattr(prop, "cross_features"):
                all_results[fk] = {l.split("\t", 1)[0]: (l, m.get(l.split("\t", 1)[0]), i.get(l.split("\t", 1)[0])) for l in lines}
            if hasattr(prop, "cross"):
                res = {l.split("\t", 1)[0]: (l, m.get(l.split("\t", 1)[0]), i.get(l.split("\t", 1)[0])) for l in lines}
                for (cl, want, got, why) in prop.cross(res):
                    mismatches.append({"features": fk, "case": cl, "model": want, "implementation": got, "why": why})
            for line in lines:
                cid = line.split("\t", 1)[0]
                ma, ia = m.get(cid), i.get(cid)
                stats["evaluations"] += 1
                cls = prop.classify(line, ma) if hasattr(prop, "classify") else (core.norm(ma).split(" ")[0] if ma else "none")
                stats["classes"][cls] = stats["classes"].get(cls, 0) + 1
                body = line.split("\t", 1)[1]
                if prop.nontrivial(line, ma):
                    stats["distinct"].add(hash(body))
                if len(stats["samples"]) < 6 and (stats["evaluations"] % max(1, len(lines) // 6) == 0 or stats["evaluations"] <= 2):
                    stats["samples"].append({"features": fk, "case": body[:400], "model": (ma or "")[:300], "implementation": (ia or "")[:300]})
                verdict = prop.judge(line, ma, ia)
                if verdict:
                    hit = match_known(kf, pid, line, ma, ia, prop)
                    if hit:
                        known_hits.append(hit)
                    else:
                        mismatches.append({"features": fk, "case": line, "model": ma, "implementation": ia, "why": verdict})
            for key in ("__errors__",):
                if m.get(key):
                    problems.append(("driver", "model driver failed on a shard: " + m[key][:500]))


        if hasattr(prop, "cross_features") and all_results:
            mismatches += prop.cross_features(all_results)

    # 5. known-finding witnesses (cases where the property itself, not the model, is the oracle)
    for w in getattr(prop, "WITNESSES", []):
        fs = w.get("features", [])
        fk = core.featkey(list(fs) + list(extra))
        if fk not in builds:
            b = core.build_harnesses([fs], extra_features=extra)
            builds.update(b)
        if not builds[fk][0]:
            continue
        ia = core.run_impl([w["case"]], fs, extra_features=extra).get(w["case"].split("\t", 1)[0])
        if core.norm(ia) != w["property_demands"]:
            listed = [k for k in kf.get("known", []) if k.get("property") == pid and k.get("id") == w["id"]]
            if listed:
                known_hits.append({"id": w["id"], "what": listed[0]["what"]})
            else:
                mismatches.append({"features": fk, "case": w["case"], "model": w["property_demands"], "implementation": ia, "why": "property witness: " + w["what"]})

    # 6. verdict
    violations = 0
    seen = set()
    for h in known_hits:
        if h["id"] not in seen:
            seen.add(h["id"])
            print(f"KNOWN-FINDING: property={pid} {h['what']}")
    if mismatches:
        # an input that fails by itself first: lines left unanswered after the hang budget was spent are not replays
        mismatches.sort(key=lambda mm: 1 if (mm.get("implementation") is None or str(mm.get("implementation")).startswith("not-run")) else 0)
        first = minimise(prop, mismatches[0])
        path = core.write_replay(pid, 0, {"property": pid, "kind": "failing-input", "features": first["features"], "case": first["case"], "expected_by_model_of_spec": first["model"], "implementation": first["implementation"], "why": first["why"], "other_mismatches": len(mismatches) - 1, "broken": [p[0] for p in problems]})
        print(f"VIOLATION property={pid} replay={path}")
        violations = len(mismatches)
    elif problems:
        path = core.write_replay(pid, 0, {"property": pid, "kind": "no-failing-input-found", "broken": [{"what": k, "detail": t[-4000:]} for k, t in problems], "explored": stats["evaluations"]})
        print(f"VIOLATION property={pid} replay={path} no-failing-input-found")
        violations = 1

    # 7. evidence
    obligations = [t for t in proof.get("theorems", [])]
    discharged = len(obligations) if proof.get("ok") and not [p for p in problems if p[0] in ("proof", "axioms", "audit")] else 0
    ev = {
        "property_id": pid,
        "tier": tier,
        "seed": seed,
        "level": "proof",
        "coverage": {
            "obligations": max(1, len(obligations)),
            "discharged": discharged,
            "checker_cmd": f"make -C coq Properties/{getattr(prop, 'PROP_FILE', pid)}.vo (coqc 8.16.1, full .vo build) + Print Assumptions audit + forbidden-command grep"
                           + (" + coqchk -o (" + coqchk["summary"][:300] + ")" if coqchk else ""),
            "trusted_base": TRUSTED_BASE,
            "theorems": obligations,
            "assumptions": {k: ("closed" if "Closed under the global context" in v else v[:200]) for k, v in proof.get("assumptions", {}).items()},
            "evaluations": stats["evaluations"],
            "distinct_nontrivial": len(stats["distinct"]),
            "rule": prop.RULE,
            "samples": stats["samples"] or [{"note": "no case was run"}],
            "answer_classes": stats["classes"],
            "cases_per_feature_set": stats["per_feature_set"],
            "translator": {k: v for k, v in tr.items() if k != "files"},
            "known_findings_reproduced": sorted(seen),
            "exhaustive": bool(getattr(prop, "EXHAUSTIVE", False)),
        },
        "assumptions": getattr(prop, "ASSUMPTIONS", []),
        "wall_s": round(time.time() - t0, 2),
        "violations": violations,
    }
    core.write_evidence(pid, ev)
    return 1 if violations else 0


def corpus_cases(pid, feats=()):
    """corpus/<id>.txt: one case per line (op TAB args); a leading `@feat,feat TAB` restricts the case to
    feature sets that enable those features"""
    p = os.path.join(core.ROOT, "corpus", pid + ".txt")
    out = []
    if os.path.exists(p):
        for n, line in enumerate(open(p)):
            line = line.rstrip("\n")
            if not line or line.startswith("#"):
                continue
            if line.startswith("@"):
                req, line = line.split("\t", 1)
                if not all(r in feats for r in req[1:].split(",") if r):
                    continue
            out.append(f"{pid}.corpus.{n}\t{line}")
    return out


def match_known(kf, pid, line, ma, ia, prop):
    for k in kf.get("known", []):
        if k.get("property") != pid:
            continue
        f = getattr(prop, "known_" + k["id"].lower(), None)
        if f and f(line, ma, ia):
            return {"id": k["id"], "what": k["what"]}
    return None


def minimise(prop, mm):
    f = getattr(prop, "minimise", None)
    if f:
        try:
            return f(mm)
        except Exception:
            return mm
    return mm
