"""Regenerates MANIFEST.json from the property modules that exist (python3 -m lib.manifest)."""
import importlib
import json
import os

ROOT = os.path.dirname(os.path.dirname(os.path.abspath(__file__)))
ALL = [f"C{n:02d}" for n in range(1, 20)]

LEVEL_NOTE = (
    "Trusted: Coq 8.16.1 kernel + bytecode VM (vm_compute; no native_compute); no axioms (Print Assumptions of every property "
    "theorem is checked to be 'Closed under the global context'); the syn-based translator (transcribes /repo declarations and match "
    "tables to coq/Gen/Generated.v, and function-body shapes to coq/Gen/Shapes.v, on every run); extraction with ExtrOcamlBasic + ExtrOcamlString only, OCaml 4.13.1, driver glue; the "
    "Rust harness; coq/Spec tables are a hand transcription of the CTAP/WebAuthn/U2F/RFC 8949 texts. Modelled, not verified: cbor-smol "
    "0.5.1, serde-indexed 0.1.1, serde_derive/serde_repr output, heapless 0.7.17, heapless-bytes 0.3.0, serde_bytes 0.11.19, cosey "
    "0.3.2, iso7816 0.1.4, bitflags 1.3.2, core::str::from_utf8 (hand-written Gallina tied by the differential correspondence run); "
    "procedural function bodies of the crate are hand-modelled, declarations and match tables are regenerated, and the shape "
    "(literals, operators, calls, control flow) of every hand-modelled body is regenerated and compared with the recorded one "
    "(coq/Gen/Shapes.v vs coq/Spec/FnShapes.v). The thorough tier also runs coqchk -o on the property file (no axioms, no "
    "type-in-type, no unsafe fixpoints, no assumed positivity). usize = 64 bit."
)


def main():
    checks = []
    na = []
    for pid in ALL:
        try:
            m = importlib.import_module(f"lib.props.{pid.lower()}")
        except ModuleNotFoundError:
            na.append({"property_id": pid, "reason": "no check registered yet in this revision of /verif (model and theorems under construction; see DESIGN.md section 8)"})
            continue
        checks.append(
            {
                "property_id": pid,
                "quick_cmd": f"./check {pid} --tier quick",
                "thorough_cmd": f"./check {pid} --tier thorough",
                "evidence_file": f"/verif/evidence/{pid}.json",
                "replay_cmd_template": f"./check {pid} --replay {{path}}",
                "engine": "coq-model",
                "level_claimed": {"category": "proof", "text": m.LEVEL_TEXT, "design_ref": f"DESIGN.md section 7 ({pid})"},
                "level_note": LEVEL_NOTE + " " + getattr(m, "LEVEL_NOTE_EXTRA", ""),
                "technique": m.TECHNIQUE,
            }
        )
    man = {
        "version": 1,
        "setup_cmd": "./check --setup",
        "hooks": {
            "guard": "ctap_types_verif",
            "enable": "RUSTFLAGS='--cfg ctap_types_verif' (set by the harness build; no hook exists in /repo: every observation point is public API)",
            "baseline_off_cmd": "cd /repo && cargo test --workspace --no-fail-fast --offline",
            "source_commits": [],
            "add_only": True,
        },
        "engines": [
            {
                "name": "coq-model",
                "path": "/verif/coq",
                "serves_properties": [c["property_id"] for c in checks],
                "kind_free_text": "Coq 8.16 development: executable Gallina model of the crate and of the serde/CBOR stack it sits on, specification tables, theorems per property; tied to /repo by (1) a translator regenerating the declarations/tables on every run and reflexive kernel obligations on them and (2) a differential correspondence run of the extracted model against the compiled crate",
            }
        ],
        "checks": checks,
        "not_applicable": na,
        "notes": "See DESIGN.md. Known findings: known_findings.json.",
    }
    with open(os.path.join(ROOT, "MANIFEST.json"), "w") as f:
        json.dump(man, f, indent=1)
    print(f"{len(checks)} checks, {len(na)} not claimed")


if __name__ == "__main__":
    main()
