"""Orchestration shared by all checks: translate, build, audit, run model and implementation,
compare, report, evidence."""
import fcntl
import hashlib
import json
import os
import re
import subprocess
import sys
import time

ROOT = os.path.dirname(os.path.dirname(os.path.abspath(__file__)))
REPO = os.environ.get("VERIF_REPO") or os.environ.get("VP_RUN_REPO") or "/repo"
CACHE = os.path.join(ROOT, ".cache")
COQ = os.path.join(ROOT, "coq")
NPROC = max(1, min(16, os.cpu_count() or 4))
ENV = dict(os.environ, CARGO_NET_OFFLINE="true")

WIRE_FEATURES = ["get-info-full", "large-blobs", "third-party-payment"]


def all_wire_feature_sets():
    out = []
    for m in range(8):
        out.append([f for i, f in enumerate(WIRE_FEATURES) if m >> i & 1])
    return out


def featkey(feats):
    return "+".join(sorted(feats)) if feats else "none"


class Lock:
    def __init__(self, name):
        os.makedirs(CACHE, exist_ok=True)
        self.path = os.path.join(CACHE, name + ".lock")

    def __enter__(self):
        self.f = open(self.path, "w")
        fcntl.flock(self.f, fcntl.LOCK_EX)
        return self

    def __exit__(self, *a):
        fcntl.flock(self.f, fcntl.LOCK_UN)
        self.f.close()


def sh(cmd, cwd=None, timeout=3600, env=None, input=None):
    t0 = time.time()
    try:
        p = subprocess.run(cmd, cwd=cwd, env=env or ENV, capture_output=True, text=True, timeout=timeout, input=input)
        return p.returncode, p.stdout, p.stderr, time.time() - t0
    except subprocess.TimeoutExpired as e:
        return 124, (e.stdout or b"").decode() if isinstance(e.stdout, bytes) else (e.stdout or ""), "timeout", time.time() - t0


# ------------------------------------------------------------------ translator
def translate():
    """Run the translator on /repo's working tree -> coq/Gen/Generated.v.  Returns its self-report."""
    with Lock("build"):
        tdir = os.path.join(ROOT, "translator")
        target = os.path.join(CACHE, "target-tr")
        exe = os.path.join(target, "release", "ctap-translator")
        src_m = max(os.path.getmtime(os.path.join(tdir, "src", "main.rs")), os.path.getmtime(os.path.join(tdir, "Cargo.toml")))
        if not os.path.exists(exe) or os.path.getmtime(exe) < src_m:
            rc, out, err, _ = sh(["cargo", "build", "--release", "--offline"], cwd=tdir, env=dict(ENV, CARGO_TARGET_DIR=target))
            if rc != 0:
                return {"ok": False, "error": "translator build failed: " + err[-2000:]}
        rep = os.path.join(CACHE, "translator-report.json")
        rc, out, err, _ = sh([exe, REPO, os.path.join(COQ, "Gen", "Generated.v"), rep, os.path.join(ROOT, "harness", "Cargo.lock")])
        if rc != 0:
            return {"ok": False, "error": "translator failed: " + (err or out)[-2000:]}
        try:
            r = json.loads(out.strip().splitlines()[-1])
        except Exception:
            r = {}
        r["ok"] = True
        return r


# ------------------------------------------------------------------ coq
FORBIDDEN = re.compile(
    r"\b(Admitted|admit|Axiom|Axioms|Parameter|Parameters|Conjecture|Conjectures|Abort All)\b|Unset\s+Guard|bypass_check|type-in-type|impredicative-set|Admit\s+Obligations|Unset\s+Universe\s+Checking|Unset\s+Positivity"
)


def strip_comments(s):
    out = []
    depth = 0
    i = 0
    instr = False
    while i < len(s):
        if not instr and s.startswith("(*", i):
            depth += 1
            i += 2
            continue
        if not instr and depth > 0 and s.startswith("*)", i):
            depth -= 1
            i += 2
            continue
        if depth == 0:
            if s[i] == '"':
                instr = not instr
            out.append(s[i])
        i += 1
    return "".join(out)


def audit_sources():
    """grep the whole development for forbidden commands; Variable/Hypothesis outside sections."""
    bad = []
    for d, _, fs in os.walk(COQ):
        for fn in fs:
            if not fn.endswith(".v"):
                continue
            p = os.path.join(d, fn)
            text = strip_comments(open(p).read())
            # drop string literals
            text_ns = re.sub(r'"(?:[^"]|"")*"', '""', text)
            for m in FORBIDDEN.finditer(text_ns):
                bad.append(f"{os.path.relpath(p, COQ)}: {m.group(0)}")
            depth = 0
            for line in text_ns.splitlines():
                if re.match(r"\s*Section\b", line):
                    depth += 1
                elif re.match(r"\s*End\b", line) and depth > 0:
                    depth -= 1
                elif depth == 0 and re.match(r"\s*(Variable|Variables|Hypothesis|Hypotheses|Context)\b", line):
                    bad.append(f"{os.path.relpath(p, COQ)}: {line.strip()} outside a section")
    return bad


def coq_makefile():
    mk = os.path.join(COQ, "Makefile")
    proj = os.path.join(COQ, "_CoqProject")
    if not os.path.exists(mk) or os.path.getmtime(mk) < os.path.getmtime(proj):
        sh(["coq_makefile", "-f", "_CoqProject", "-o", "Makefile"], cwd=COQ)


def coq_build(targets, timeout=2400):
    """make the given .vo targets (full .vo build, never -vos).  Returns (ok, log)."""
    with Lock("build"):
        coq_makefile()
        rc, out, err, dt = sh(["make", "-j", str(NPROC)] + targets, cwd=COQ, timeout=timeout)
        return rc == 0, out + err, dt


def coq_prop(prop_file, timeout=900):
    """Compile one Properties/<id>.v freshly (so that Print Assumptions output is captured).
    Returns dict(ok, log, assumptions{theorem: text}, theorems[list])."""
    vo = f"Properties/{prop_file}.vo"
    ok, log, dt = coq_build([vo.replace(f"Properties/{prop_file}.vo", f"Properties/{prop_file}.vo")], timeout)
    # dependencies are built; now (re)compile the property file itself to capture its output
    with Lock("build"):
        args = ["coqc"] + coq_args() + [f"Properties/{prop_file}.v"]
        rc, out, err, dt2 = sh(args, cwd=COQ, timeout=timeout)
    text = out + err
    res = {"ok": ok and rc == 0, "log": (log[-3000:] if not ok else "") + (text[-6000:] if rc != 0 else ""), "wall": dt + dt2}
    res["assumptions"] = parse_assumptions(out)
    src = open(os.path.join(COQ, "Properties", prop_file + ".v")).read()
    res["theorems"] = re.findall(r"^\s*(?:Theorem|Lemma|Example|Corollary)\s+([A-Za-z0-9_']+)", strip_comments(src), re.M)
    return res


def coqchk(prop_file, timeout=2400):
    """coqchk -o on the compiled property file: independent checker; ok iff it succeeds and reports no axioms,
    no type-in-type, no unsafe fixpoints, no assumed positivity."""
    with Lock("build"):
        rc, out, err, dt = sh(["coqchk", "-o", "-silent"] + coq_args() + [f"Ctap.{prop_file}"], cwd=COQ, timeout=timeout)
    text = out + err
    summ = text[text.find("CONTEXT SUMMARY"):] if "CONTEXT SUMMARY" in text else text[-1500:]
    clean = all(re.search(pat + r"\s*<none>", summ) for pat in
                [r"Axioms:", r"relying on type-in-type:", r"relying on unsafe \(co\)fixpoints:", r"positivity is assumed:"])
    return {"ok": rc == 0 and clean, "summary": " ".join(summ.split()), "log": text[-3000:], "wall": dt}


def coq_args():
    args = []
    for line in open(os.path.join(COQ, "_CoqProject")):
        line = line.strip()
        if line.startswith("-Q") or line.startswith("-R"):
            args += line.split()
    return args


def parse_assumptions(out):
    """Output of `Print Assumptions t.` is either 'Closed under the global context' or
    'Axioms:' followed by lines `name : type`.  We prefix each with an `idtac`-free marker by
    convention: the property files print `(* ASSUMPTIONS name *)` via Check before each."""
    res = {}
    cur = None
    buf = []
    for line in out.splitlines():
        m = re.match(r'\s*=\s*"ASSUMPTIONS ([A-Za-z0-9_\']+)"', line)
        if m:
            if cur:
                res[cur] = "\n".join(buf).strip()
            cur = m.group(1)
            buf = []
            continue
        if line.strip().startswith(": string") and cur and not buf:
            continue
        if cur is not None:
            buf.append(line)
    if cur:
        res[cur] = "\n".join(buf).strip()
    return res


AXIOM_ALLOWLIST = set()  # no axioms expected: every theorem must be closed under the global context


def assumptions_ok(assm):
    bad = {}
    for t, text in assm.items():
        if "Closed under the global context" in text:
            continue
        names = re.findall(r"^([A-Za-z0-9_.']+)\s*:", text, re.M)
        extra = [n for n in names if n not in AXIOM_ALLOWLIST]
        if extra or not names:
            bad[t] = text[:500]
    return bad


# ------------------------------------------------------------------ driver (extracted model)
def build_driver():
    with Lock("build"):
        coq_makefile()
        deps = ["Model/Typed.vo", "Model/WellTyped.vo", "Model/Procs.vo", "Spec/Tables.vo", "Spec/ProcTables.vo", "Model/Arb.vo", "Model/ArbTy.vo", "Model/Within.vo", "Spec/PlainDecls.vo"]
        deps = [d for d in deps if os.path.exists(os.path.join(COQ, d[:-1]))]
        rc, out, err, _ = sh(["make", "-j", str(NPROC)] + deps, cwd=COQ, timeout=1800)
        if rc != 0:
            return False, "model build failed:\n" + (out + err)[-3000:]
        ex = os.path.join(CACHE, "extract")
        os.makedirs(ex, exist_ok=True)
        srcs = [os.path.join(COQ, "Extract", "Extract.v"), os.path.join(ROOT, "driver", "main.ml")] + [os.path.join(COQ, d) for d in deps]
        stamp = os.path.join(ex, "driver")
        if os.path.exists(stamp) and all(os.path.getmtime(stamp) >= os.path.getmtime(s) for s in srcs):
            return True, "cached"
        rc, out, err, _ = sh(["coqc"] + coq_args_abs() + [os.path.join(COQ, "Extract", "Extract.v")], cwd=ex, timeout=900)
        if rc != 0:
            return False, "extraction failed:\n" + (out + err)[-3000:]
        sh(["cp", os.path.join(ROOT, "driver", "main.ml"), ex])
        rc, out, err, _ = sh(["ocamlfind", "ocamlopt", "-w", "-a", "-package", "str", "model.mli", "model.ml", "main.ml", "-o", "driver.tmp"], cwd=ex, timeout=900)
        if rc != 0:
            return False, "driver compile failed:\n" + (out + err)[-3000:]
        os.replace(os.path.join(ex, "driver.tmp"), stamp)
        return True, "built"


def coq_args_abs():
    args = []
    for line in open(os.path.join(COQ, "_CoqProject")):
        parts = line.split()
        if len(parts) == 3 and parts[0] in ("-Q", "-R"):
            args += [parts[0], os.path.join(COQ, parts[1]), parts[2]]
    return args


DRIVER = os.path.join(CACHE, "extract", "driver")


# ------------------------------------------------------------------ harness (implementation)
def harness_path(feats, release=False):
    return os.path.join(CACHE, "target-h-" + featkey(feats), "release" if release else "debug", "ctap-harness")


def build_harness(feats, release=False, extra_features=()):
    """cargo build of the harness against /repo's current working tree with the given features."""
    hdir = os.path.join(ROOT, "harness")
    if REPO != "/repo":
        # an alternative repository location (isolated background runs): same harness, path rewritten
        alt = os.path.join(CACHE, "harness-alt")
        os.makedirs(os.path.join(alt, "src"), exist_ok=True)
        for fn in ("src/main.rs", "src/val.rs", "Cargo.lock"):
            data = open(os.path.join(hdir, fn)).read()
            dst = os.path.join(alt, fn)
            if not os.path.exists(dst) or open(dst).read() != data:
                open(dst, "w").write(data)
        toml = open(os.path.join(hdir, "Cargo.toml")).read().replace('path = "/repo"', f'path = "{REPO}"')
        dst = os.path.join(alt, "Cargo.toml")
        if not os.path.exists(dst) or open(dst).read() != toml:
            open(dst, "w").write(toml)
        hdir = alt
    allf = list(feats) + list(extra_features)
    target = os.path.join(CACHE, "target-h-" + featkey(allf))
    with Lock("cargo-" + featkey(allf)):
        lock_src = os.path.join(REPO, "Cargo.lock")
        cmd = ["cargo", "build", "--offline"]
        if release:
            cmd.append("--release")
        if allf:
            cmd += ["--features", ",".join(allf)]
        env = dict(ENV, CARGO_TARGET_DIR=target, RUSTFLAGS=os.environ.get("RUSTFLAGS", "") + " --cfg ctap_types_verif")
        rc, out, err, dt = sh(cmd, cwd=hdir, env=env, timeout=1800)
        if rc != 0:
            return False, err[-4000:]
        return True, f"{dt:.1f}s"


def build_harnesses(feature_sets, release=False, extra_features=()):
    """build several feature sets in parallel; returns {featkey: (ok, msg)}"""
    from concurrent.futures import ThreadPoolExecutor

    with ThreadPoolExecutor(max_workers=min(4, len(feature_sets))) as ex:
        futs = {featkey(list(fs) + list(extra_features)): ex.submit(build_harness, fs, release, extra_features) for fs in feature_sets}
        return {k: f.result() for k, f in futs.items()}


# ------------------------------------------------------------------ running cases
def _run_shards(exe_args, lines, nshards, timeout):
    from concurrent.futures import ThreadPoolExecutor

    if not lines:
        return {}
    nshards = max(1, min(nshards, (len(lines) + 199) // 200))
    shards = [lines[i::nshards] for i in range(nshards)]

    def one(sh_lines):
        data = "\n".join(sh_lines) + "\n"
        try:
            p = subprocess.run(exe_args, input=data, capture_output=True, text=True, timeout=timeout, env=ENV)
            return p.returncode, p.stdout, p.stderr
        except subprocess.TimeoutExpired:
            return 124, "", "timeout"

    out = {}
    with ThreadPoolExecutor(max_workers=nshards) as ex:
        for rc, so, se in ex.map(one, shards):
            for line in so.splitlines():
                i = line.find("\t")
                if i > 0:
                    out[line[:i]] = line[i + 1 :]
            if rc != 0:
                out.setdefault("__errors__", "")
                out["__errors__"] += f"rc={rc} {se[-500:]}\n"
    return out


def run_model(lines, feats, timeout=1800):
    return _run_shards([DRIVER, ",".join(feats)], lines, NPROC, timeout)


HANG_BUDGET = 3


def run_impl(lines, feats, release=False, timeout=1800, extra_features=()):
    """The harness catches unwinding panics itself.  A case that does not return is ended by the harness's own watchdog
    (VERIF_LINE_TIMEOUT seconds, default 20): it delivers the answers collected so far, answers `hang` for that line and
    exits with code 97; the rest of the shard is then run again.  After HANG_BUDGET hangs in one call the lines not yet
    run are answered `not-run` (a hang is already a violation; every further one costs the full time limit).
    A batch in which the process dies otherwise (abort, stack overflow, signal) loses its buffered answers, so the
    unanswered lines are re-run by bisection: halves that complete deliver their answers, a half that dies is split again,
    down to the single line that kills the process (`abort rc=..`).  Every line ends up with an answer of its own, so a
    replay always names an input that fails by itself."""
    from concurrent.futures import ThreadPoolExecutor
    import threading

    exe = harness_path(list(feats) + list(extra_features), release)
    if not lines:
        return {}
    hangs = [0]
    lock = threading.Lock()

    def parse(so, res):
        for line in so.splitlines():
            i = line.find("\t")
            if i > 0:
                res[line[:i]] = line[i + 1 :]

    def shard(ls):
        """(answers, died?) of one shard; continues after each watchdog exit while the budget lasts"""
        res = {}
        todo = ls
        while todo:
            try:
                p = subprocess.run([exe], input="\n".join(todo) + "\n", capture_output=True, text=True, timeout=timeout, env=ENV)
                rc, so = p.returncode, p.stdout
            except subprocess.TimeoutExpired:
                rc, so = 124, ""
            if rc == 0:
                parse(so, res)
                return res, False
            if rc == 97:
                parse(so, res)
                with lock:
                    hangs[0] += 1
                    spent = hangs[0] >= HANG_BUDGET
                rest = [l for l in todo if l.split("\t", 1)[0] not in res]
                if spent:
                    for l in rest:
                        res[l.split("\t", 1)[0]] = "not-run (hang budget spent)"
                    return res, False
                if len(rest) == len(todo):      # no progress: cannot happen, the hung line is answered
                    return res, True
                todo = rest
                continue
            return res, True
        return res, False

    nshards = max(1, min(NPROC, (len(lines) + 199) // 200))
    shards = [lines[i::nshards] for i in range(nshards)]
    out = {}
    died = False
    with ThreadPoolExecutor(max_workers=nshards) as ex:
        for res, d in ex.map(shard, shards):
            out.update(res)
            died = died or d
    if not died:
        return out
    missing = [l for l in lines if l.split("\t", 1)[0] not in out]

    def batch(ls):
        """answers of the lines of ls, bisecting where the process dies"""
        with lock:
            if hangs[0] >= HANG_BUDGET:
                return {l.split("\t", 1)[0]: "not-run (hang budget spent)" for l in ls}
        try:
            p = subprocess.run([exe], input="\n".join(ls) + "\n", capture_output=True, text=True, timeout=120 + len(ls) // 200, env=ENV)
            rc, so = p.returncode, p.stdout
        except subprocess.TimeoutExpired:
            rc, so = 124, ""
        res = {}
        if rc == 0 or rc == 97:
            parse(so, res)
            if rc == 97:
                with lock:
                    hangs[0] += 1
                rest = [l for l in ls if l.split("\t", 1)[0] not in res]
                if rest and len(rest) < len(ls):
                    res.update(batch(rest))
            return res
        if len(ls) == 1:
            with lock:
                if rc == 124:
                    hangs[0] += 1
            return {ls[0].split("\t", 1)[0]: ("hang" if rc == 124 else f"abort rc={rc}")}
        mid = len(ls) // 2
        res.update(batch(ls[:mid]))
        res.update(batch(ls[mid:]))
        return res

    chunks = [missing[i::NPROC] for i in range(NPROC)]
    with ThreadPoolExecutor(max_workers=NPROC) as ex:
        for res in ex.map(batch, [c for c in chunks if c]):
            out.update(res)
    return out


def norm(ans):
    """canonicalise an answer before diffing: panics lose their site text"""
    if ans is None:
        return "missing"
    if ans.startswith("panic"):
        return "panic"
    return ans


# ------------------------------------------------------------------ schema dump (for generators)
def load_schema(feats):
    rc, out, err, _ = sh([DRIVER, ",".join(feats), "dumpenv"])
    env = {}
    cur = None
    for line in out.splitlines():
        p = line.split("\t")
        if p[0] == "struct":
            cur = {"kind": "struct", "name": p[1], "idx": p[2] == "idx", "ser": p[3] == "1", "de": p[4] == "1", "fields": []}
            env[p[1]] = cur
        elif p[0] == "field":
            key = int(p[2][1:], 16) if p[2][0] == "i" else p[2][1:]
            cur["fields"].append(
                {
                    "label": p[1],
                    "key": key,
                    "ty": parse_ty(p[3]),
                    "opt": p[4] == "1",
                    "skip_none": p[5] == "1",
                    "skip_ser": p[6] == "1",
                    "default": p[7] == "1",
                    "with": None if p[8] == "-" else p[8],
                    "aliases": [a for a in (p[9] if len(p) > 9 else "").split(",") if a],
                }
            )
        elif p[0] == "strenum":
            env[p[1]] = {"kind": "strenum", "name": p[1], "ser": p[2] == "1", "de": p[3] == "1", "variants": [tuple(x.split("=", 1)) for x in p[4].split(",") if x]}
        elif p[0] == "repr":
            env[p[1]] = {"kind": "repr", "name": p[1], "repr": p[2], "ser": p[3] == "1", "de": p[4] == "1", "variants": [(x.split("=")[0], int(x.split("=")[1], 16)) for x in p[5].split(",") if x]}
        elif p[0] == "untagged":
            env[p[1]] = {"kind": "untagged", "name": p[1], "variants": [(x.split("=", 1)[0], parse_ty(x.split("=", 1)[1])) for x in p[2].split(",") if x]}
        elif p[0] == "custom":
            env[p[1]] = {"kind": "custom", "name": p[1], "ser": p[2] == "1", "de": p[3] == "1", "params": [int(x, 16) for x in p[4].split(",") if x] if len(p) > 4 else []}
    return env


def parse_ty(s):
    s = s.strip()
    if s.startswith("opt("):
        return ("opt", parse_ty(s[4:-1]))
    if s.startswith("vec("):
        inner = s[4:-1]
        i = inner.rfind(",")
        return ("vec", parse_ty(inner[:i]), int(inner[i + 1 :], 16))
    if ":" in s:
        k, v = s.split(":", 1)
        if k in ("named", "ext"):
            return ("named", v)
        return (k, int(v, 16))
    return (s,)


# ------------------------------------------------------------------ reporting
def write_replay(prop, n, payload):
    d = os.environ.get("VERIF_REPLAY_DIR") or os.path.join(ROOT, "replays")
    os.makedirs(d, exist_ok=True)
    h = hashlib.sha1(json.dumps(payload, sort_keys=True).encode()).hexdigest()[:10]
    p = os.path.join(d, f"{prop}-{h}.json")
    with open(p, "w") as f:
        json.dump(payload, f, indent=1)
    return p


def write_evidence(prop, ev):
    # tools/seed_run.sh and tools/seed_matrix.py run the checks against a deliberately mutated tree: they divert
    # the evidence so that the committed evidence/ always comes from /repo itself
    d = os.environ.get("VERIF_EVIDENCE_DIR") or os.path.join(ROOT, "evidence")
    os.makedirs(d, exist_ok=True)
    with open(os.path.join(d, f"{prop}.json"), "w") as f:
        json.dump(ev, f, indent=1)


def known_findings():
    p = os.path.join(ROOT, "known_findings.json")
    if os.path.exists(p):
        return json.load(open(p))
    return {"known": [], "fixed": []}


class SplitMix:
    """All randomness of a run comes from one splitmix64 state seeded by VERIF_SEED."""

    def __init__(self, seed):
        self.s = seed & 0xFFFFFFFFFFFFFFFF

    def next(self):
        self.s = (self.s + 0x9E3779B97F4A7C15) & 0xFFFFFFFFFFFFFFFF
        z = self.s
        z = ((z ^ (z >> 30)) * 0xBF58476D1CE4E5B9) & 0xFFFFFFFFFFFFFFFF
        z = ((z ^ (z >> 27)) * 0x94D049BB133111EB) & 0xFFFFFFFFFFFFFFFF
        return z ^ (z >> 31)

    def below(self, n):
        return self.next() % n if n > 0 else 0

    def choice(self, l):
        return l[self.below(len(l))]

    def bytes(self, n):
        out = bytearray()
        while len(out) < n:
            out += self.next().to_bytes(8, "little")
        return bytes(out[:n])

    def chance(self, num, den):
        return self.below(den) < num

    def shuffle(self, l):
        l = list(l)
        for i in range(len(l) - 1, 0, -1):
            j = self.below(i + 1)
            l[i], l[j] = l[j], l[i]
        return l

    def fork(self, tag):
        h = int.from_bytes(hashlib.sha256(f"{self.s}:{tag}".encode()).digest()[:8], "little")
        return SplitMix(h)
