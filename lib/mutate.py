"""Structure-level mutations of CBOR trees (lib/cbor.py) and byte-level mutations.  Generation only."""
from . import cbor
from .cbor import M, T, Tag, Simple, Float, Raw, W, Indef


def paths(tree, prefix=()):
    """every node of the tree with its path; path elements: ('k', i) key of pair i, ('v', i) value of pair i,
    ('e', i) element i of an array"""
    yield prefix, tree
    if isinstance(tree, M):
        for i, (k, v) in enumerate(tree.pairs):
            yield from paths(k, prefix + (("k", i),))
            yield from paths(v, prefix + (("v", i),))
    elif isinstance(tree, (list, tuple)):
        for i, e in enumerate(tree):
            yield from paths(e, prefix + (("e", i),))


def replace(tree, path, new):
    if not path:
        return new
    (kind, i), rest = path[0], path[1:]
    if isinstance(tree, M):
        pairs = list(tree.pairs)
        k, v = pairs[i]
        pairs[i] = (replace(k, rest, new), v) if kind == "k" else (k, replace(v, rest, new))
        return M(pairs)
    l = list(tree)
    l[i] = replace(l[i], rest, new)
    return l


def get(tree, path):
    for kind, i in path:
        if isinstance(tree, M):
            tree = tree.pairs[i][0] if kind == "k" else tree.pairs[i][1]
        else:
            tree = tree[i]
    return tree


def remove_pair(tree, path, i):
    m = get(tree, path)
    pairs = list(m.pairs)
    del pairs[i]
    return replace(tree, path, M(pairs))


def dup_pair(tree, path, i, at=None):
    m = get(tree, path)
    pairs = list(m.pairs)
    pairs.insert(len(pairs) if at is None else at, pairs[i])
    return replace(tree, path, M(pairs))


def dup_pair_null(tree, path, i, null_first):
    """the i-th pair twice, one of the two occurrences carrying null (a 'seen' marker derived from the decoded value would miss it)"""
    m = get(tree, path)
    pairs = list(m.pairs)
    k, v = pairs[i]
    pairs[i:i + 1] = [(k, None), (k, v)] if null_first else [(k, v), (k, None)]
    return replace(tree, path, M(pairs))


def insert_pair(tree, path, at, k, v):
    m = get(tree, path)
    pairs = list(m.pairs)
    pairs.insert(at, (k, v))
    return replace(tree, path, M(pairs))


def kind_of(x):
    if isinstance(x, bool):
        return "bool"
    if x is None:
        return "null"
    if isinstance(x, int):
        return "uint" if x >= 0 else "nint"
    if isinstance(x, (bytes, bytearray)):
        return "bytes"
    if isinstance(x, (str, T)):
        return "text"
    if isinstance(x, (list, tuple)):
        return "array"
    if isinstance(x, M):
        return "map"
    return "other"


def other_types(x):
    """one value of every other data type (unsigned, negative, byte string, text, array, map, boolean)"""
    cands = {"uint": 1, "nint": -1, "bytes": b"\x01", "text": "a", "array": [], "map": M([]), "bool": True}
    k = kind_of(x)
    res = [(n, v) for n, v in cands.items() if n != k]
    if isinstance(x, (bytes, bytearray)) and len(x) <= 80:
        # the same bytes as a CBOR array of small integers (some byte-string visitors also accept a sequence), exact length and one more
        res.append(("array", [b for b in x]))
        res.append(("array", [b for b in x] + [7]))
    return res


def has_head_arg(x):
    return isinstance(x, (int, bytes, bytearray, str, T, list, tuple, M)) and not isinstance(x, bool)


def head_value(x):
    if isinstance(x, bool) or x is None:
        return None
    if isinstance(x, int):
        return x if x >= 0 else -1 - x
    if isinstance(x, (bytes, bytearray)):
        return len(x)
    if isinstance(x, str):
        return len(x.encode())
    if isinstance(x, T):
        return len(x.b)
    if isinstance(x, (list, tuple)):
        return len(x)
    if isinstance(x, M):
        return len(x.pairs)
    return None


def wider_heads(x):
    """non-minimal re-encodings of the head of x"""
    n = head_value(x)
    if n is None:
        return []
    minimal = 0 if n <= 23 else 1 if n <= 0xFF else 2 if n <= 0xFFFF else 4 if n <= 0xFFFFFFFF else 8
    return [W(w, x) for w in (1, 2, 4, 8) if w > minimal]


# ------------------------------------------------------------------ random CBOR values (full grammar)
def random_item(rng, depth=0, max_depth=4, budget=None):
    """any well-formed definite-length CBOR item: all majors, tags, floats, simple values"""
    r = rng.below(12 if depth < max_depth else 8)
    if r == 0:
        return rng.choice([0, 1, 23, 24, 255, 256, 65535, 65536, 2**32 - 1, 2**32, 2**64 - 1, rng.below(2**64)])
    if r == 1:
        return -1 - rng.choice([0, 23, 24, 255, 256, 65535, 65536, 2**32, 2**64 - 1])
    if r == 2:
        return rng.bytes(rng.choice([0, 1, 23, 24, 100, 255, 256, 300]))
    if r == 3:
        return T(rng.bytes(rng.choice([0, 1, 5, 24, 200])))  # skipper does not validate UTF-8
    if r == 4:
        return rng.choice([True, False, None, Simple(rng.choice([0, 16, 19, 23, 32, 255]))])
    if r == 5:
        w = rng.choice([2, 4, 8])
        return Float(w, rng.bytes(w))
    if r == 6:
        return "credBlob"
    if r == 7:
        return W(rng.choice([1, 2, 4, 8]), rng.below(20))  # non-minimal INTEGER heads are skipped too
    if r == 8:
        return [random_item(rng, depth + 1, max_depth) for _ in range(rng.below(4))]
    if r == 9:
        return M([(random_item(rng, depth + 1, max_depth), random_item(rng, depth + 1, max_depth)) for _ in range(rng.below(3))])
    if r == 10:
        return Tag(rng.choice([0, 1, 24, 55799, 2**32]), random_item(rng, depth + 1, max_depth))
    return [[random_item(rng, depth + 2, max_depth)]]


def nested(depth, leaf=0, kind="array"):
    """depth nested one-element arrays / one-entry maps / tags around leaf (as raw bytes: no recursion)"""
    unit = {"array": b"\x81", "map": b"\xa1\x01", "tag": b"\xc1"}[kind]
    return Raw(unit * depth + cbor.enc(leaf))


# ------------------------------------------------------------------ byte-level
def byte_mutations(rng, b, n):
    out = []
    L = len(b)
    for _ in range(n):
        r = rng.below(6)
        if L == 0:
            out.append(rng.bytes(1 + rng.below(4)))
            continue
        p = rng.below(L)
        if r == 0:
            out.append(b[:p] + bytes([b[p] ^ (1 << rng.below(8))]) + b[p + 1 :])
        elif r == 1:
            out.append(b[:p] + bytes([rng.below(256)]) + b[p + 1 :])
        elif r == 2:
            out.append(b[:p] + rng.bytes(1 + rng.below(3)) + b[p:])
        elif r == 3:
            out.append(b[:p] + b[p + 1 + rng.below(3) :])
        elif r == 4:
            q = rng.below(L)
            out.append(b[:p] + b[q : q + 1 + rng.below(8)] + b[p:])
        else:
            out.append(b[:p])
    return out
