"""Minimal CBOR tree encoder/decoder for the case generators (generation only; never an oracle).

Tree:  int -> unsigned/negative; bytes -> byte string; str -> text; T(bytes) -> text with raw bytes;
list -> array; M([(k, v), ...]) -> map in the given order; True/False/None -> simple values;
Tag(n, x); Simple(n); Float(width, payload); Raw(bytes) -> spliced verbatim;
W(width, x) -> x with its head forced to `width` extra bytes (non-minimal); Indef(x) -> indefinite length.
"""


class T:
    def __init__(self, b):
        self.b = bytes(b)


class M:
    def __init__(self, pairs):
        self.pairs = list(pairs)


class Tag:
    def __init__(self, n, x):
        self.n, self.x = n, x


class Simple:
    def __init__(self, n):
        self.n = n


class Float:
    def __init__(self, width, payload):
        self.width, self.payload = width, bytes(payload)


class Raw:
    def __init__(self, b):
        self.b = bytes(b)


class W:
    def __init__(self, width, x):
        self.width, self.x = width, x


class Indef:
    def __init__(self, x):
        self.x = x


def head(major, n, width=None):
    if width is None:
        if n <= 23:
            width = 0
        elif n <= 0xFF:
            width = 1
        elif n <= 0xFFFF:
            width = 2
        elif n <= 0xFFFFFFFF:
            width = 4
        else:
            width = 8
    if width == 0:
        return bytes([major << 5 | (n & 31)])
    ai = {1: 24, 2: 25, 4: 26, 8: 27}[width]
    return bytes([major << 5 | ai]) + (n & ((1 << (8 * width)) - 1)).to_bytes(width, "big")


def enc(x, width=None):
    if isinstance(x, bool):
        return b"\xf5" if x else b"\xf4"
    if x is None:
        return b"\xf6"
    if isinstance(x, int):
        return head(0, x, width) if x >= 0 else head(1, -1 - x, width)
    if isinstance(x, (bytes, bytearray)):
        return head(2, len(x), width) + bytes(x)
    if isinstance(x, str):
        b = x.encode("utf-8")
        return head(3, len(b), width) + b
    if isinstance(x, T):
        return head(3, len(x.b), width) + x.b
    if isinstance(x, (list, tuple)):
        return head(4, len(x), width) + b"".join(enc(e) for e in x)
    if isinstance(x, M):
        return head(5, len(x.pairs), width) + b"".join(enc(k) + enc(v) for k, v in x.pairs)
    if isinstance(x, dict):
        return enc(M(list(x.items())), width)
    if isinstance(x, Tag):
        return head(6, x.n, width) + enc(x.x)
    if isinstance(x, Simple):
        return head(7, x.n, width)
    if isinstance(x, Float):
        return bytes([7 << 5 | {2: 25, 4: 26, 8: 27}[x.width]]) + x.payload
    if isinstance(x, Raw):
        return x.b
    if isinstance(x, W):
        return enc(x.x, x.width)
    if isinstance(x, Indef):
        y = x.x
        if isinstance(y, (bytes, bytearray)):
            return b"\x5f" + enc(bytes(y)) + b"\xff"
        if isinstance(y, (str, T)):
            return b"\x7f" + enc(y) + b"\xff"
        if isinstance(y, (list, tuple)):
            return b"\x9f" + b"".join(enc(e) for e in y) + b"\xff"
        if isinstance(y, M):
            return b"\xbf" + b"".join(enc(k) + enc(v) for k, v in y.pairs) + b"\xff"
        if isinstance(y, dict):
            return enc(Indef(M(list(y.items()))))
    raise TypeError(f"cannot encode {x!r}")


def dec(b, pos=0):
    """Parse one definite-length item -> (tree, next position).  Raises ValueError on malformed input."""
    if pos >= len(b):
        raise ValueError("end")
    ib = b[pos]
    major, ai = ib >> 5, ib & 31
    pos += 1
    if ai <= 23:
        n = ai
    elif ai in (24, 25, 26, 27):
        w = {24: 1, 25: 2, 26: 4, 27: 8}[ai]
        if pos + w > len(b):
            raise ValueError("end")
        n = int.from_bytes(b[pos : pos + w], "big")
        pos += w
    else:
        raise ValueError("ai")
    if major == 0:
        return n, pos
    if major == 1:
        return -1 - n, pos
    if major in (2, 3):
        if pos + n > len(b):
            raise ValueError("end")
        s = bytes(b[pos : pos + n])
        return (s if major == 2 else T(s)), pos + n
    if major == 4:
        out = []
        for _ in range(n):
            x, pos = dec(b, pos)
            out.append(x)
        return out, pos
    if major == 5:
        out = []
        for _ in range(n):
            k, pos = dec(b, pos)
            v, pos = dec(b, pos)
            out.append((k, v))
        return M(out), pos
    if major == 6:
        x, pos = dec(b, pos)
        return Tag(n, x), pos
    if ai == 20:
        return False, pos
    if ai == 21:
        return True, pos
    if ai == 22:
        return None, pos
    if ai in (25, 26, 27):
        w = {25: 2, 26: 4, 27: 8}[ai]
        return Float(w, n.to_bytes(w, "big")), pos
    return Simple(n), pos


def key_bytes(k):
    return enc(k)


def canonical_key(k):
    """CTAP2 canonical ordering key: (major type, encoded length, bytes)"""
    e = enc(k)
    return (e[0] >> 5, len(e), e)


def check_canonical(b):
    """Independent strict checker of CTAP2 canonical CBOR on raw bytes.  Returns None if the byte
    string is exactly one canonical item, else a reason string."""

    def item(pos, depth):
        if depth > 64:
            return None, "too deep"
        if pos >= len(b):
            return None, "truncated"
        ib = b[pos]
        major, ai = ib >> 5, ib & 31
        pos += 1
        if ai <= 23:
            n = ai
        elif ai in (24, 25, 26, 27):
            w = {24: 1, 25: 2, 26: 4, 27: 8}[ai]
            if pos + w > len(b):
                return None, "truncated head"
            n = int.from_bytes(b[pos : pos + w], "big")
            pos += w
            if major != 7:
                lo = {1: 24, 2: 256, 4: 65536, 8: 1 << 32}[w]
                if n < lo:
                    return None, f"non-minimal head at {pos - w - 1}"
        elif ai == 31:
            return None, "indefinite length"
        else:
            return None, "reserved additional info"
        if major in (0, 1):
            return pos, None
        if major in (2, 3):
            if pos + n > len(b):
                return None, "truncated string"
            if major == 3:
                try:
                    bytes(b[pos : pos + n]).decode("utf-8")
                except UnicodeDecodeError:
                    return None, "invalid utf-8"
            return pos + n, None
        if major == 4:
            for _ in range(n):
                pos, err = item(pos, depth + 1)
                if err:
                    return None, err
            return pos, None
        if major == 5:
            prev = None
            for _ in range(n):
                kstart = pos
                pos, err = item(pos, depth + 1)
                if err:
                    return None, err
                kb = bytes(b[kstart:pos])
                key = (kb[0] >> 5, len(kb), kb)
                if prev is not None:
                    if key == prev:
                        return None, f"duplicate key at {kstart}"
                    if key < prev:
                        return None, f"map keys out of canonical order at {kstart}"
                prev = key
                pos, err = item(pos, depth + 1)
                if err:
                    return None, err
            return pos, None
        if major == 6:
            return None, "tag"
        # major 7
        if ai in (20, 21, 22):
            return pos, None
        if ai in (25, 26, 27):
            return None, "float"
        if ai == 23:
            return None, "undefined"
        return None, "simple value"

    end, err = item(0, 0)
    if err:
        return err
    if end != len(b):
        return "trailing bytes"
    return None
