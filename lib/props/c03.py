"""C03 - everything the authenticator emits is CTAP2 canonical CBOR."""
from .. import cbor, core, gen
from .common import *

ID = "C03"
PROP_FILE = "C03"
RULE = ("every response kind and every public serialisable map type: no member, each single member, every PAIR of optional members, "
        "all members, plus seeded random subsets with boundary integers (0,23,24,255,256,65535,65536,2^32-1,2^32,2^64-1) and boundary "
        "lengths; decode-only map types are decoded from canonical bytes and re-encoded; the extension map inside authenticator data. "
        "The implementation's bytes must equal the model's AND pass an independent strict canonical-CBOR checker (lib/cbor.py "
        "check_canonical). Non-trivial = distinct (type, value) whose encoding has at least one map entry")
ASSUMPTIONS = ["values of make_credential::UnsignedExtensionOutputs cannot be constructed outside the crate, so that member is always absent"]
TECHNIQUE = "Coq proof: generic theorem that the encoder's output is canonical CBOR at every nesting level for every value whenever all structs list their members in canonical key order; that order is a reflexive obligation on the regenerated declarations for all 32 feature sets; differential run with independent canonical-CBOR checker"
LEVEL_TEXT = ("Theorem (coq/Proofs/SerP.v ser_canon, Properties/C03.v c03_encoder_canonical / c03_response_body_canonical): for every environment with structs_ordered and every value, the encoder's output satisfies the canonical predicate (shortest heads, definite lengths, map keys strictly ascending in CTAP2 order, recursively, incl. COSE keys). Kernel-checked obligation that every serialisable declaration regenerated from /repo lists its members in canonical key order in all feature configurations and equals the specification tables. Differential run in which every emitted byte string is also parsed by an independent strict canonical-CBOR checker.")

feature_sets = default_feature_sets


def body_of(ans):
    """bytes that must be canonical CBOR, or None"""
    if not ans:
        return None
    p = ans.split(" ")
    if p[0] == "ok" and len(p) > 1:
        try:
            return bytes.fromhex(p[1])
        except ValueError:
            return None
    if p[0] == "buf" and len(p) > 1:
        b = bytes.fromhex(p[1])
        if len(b) > 1 and b[0] == 0:
            return b[1:]
    return None


def cases(tier, rng, schema, feats):
    g = gen.Gen(schema, rng, tier)
    out = []
    n = 0

    def add(op, *args):
        nonlocal n
        out.append(f"C03.{n}\t{op}\t" + "\t".join(args))
        n += 1

    limit = 64 if tier == "quick" else 4096
    reps = 1 if tier == "quick" else 4
    for t in ENCTY_TYPES:
        if t not in schema:
            continue
        d = schema[t]
        if d["kind"] == "struct":
            labels = g.optional_labels(t)
            for sub in gen.subsets_or_sample(labels, rng, limit):
                for _ in range(reps):
                    add("encty", t, gen.show(g.named_val(t, present=sub, focus=rng.chance(1, 2))))
            for _ in range(10 * reps):
                add("encty", t, gen.show(g.named_val(t, present=None, focus=True)))
        else:
            if d["kind"] in ("strenum", "repr"):
                for v, _ in d["variants"]:
                    add("encty", t, "e:" + v)
            else:
                for _ in range(8 * reps):
                    add("encty", t, gen.show(g.named_val(t, focus=True)))
    for variant, t in RESPONSES.items():
        labels = g.optional_labels(t)
        for sub in gen.subsets_or_sample(labels, rng, limit):
            add("enc2", variant, "7609", "-", gen.show(g.named_val(t, present=sub, focus=rng.chance(1, 2))))
        for _ in range(10 * reps):
            add("enc2", variant, "7609", "-", gen.show(g.named_val(t, present="all", focus=True)))
    for t in RESER_ONLY_TYPES:
        if t not in schema or schema[t]["kind"] != "struct":
            continue
        labels = g.optional_wire_labels(t)
        for sub in gen.subsets_or_sample(labels, rng, limit):
            add("reser", t, cbor.enc(g.named_wire(t, present=sub)).hex())
    # extension maps inside authenticator data
    for flavour, t in (("mc", "ctap2::make_credential::Extensions"), ("ga", "ctap2::get_assertion::ExtensionsOutput")):
        for sub in gen.subsets_or_sample(g.optional_labels(t), rng, 64):
            add("authdata", flavour, (b"\x5a" * 32).hex(), "c1" if flavour == "mc" else "81", "%x" % rng.below(2**32),
                ("00" * 16 + ":" + rng.bytes(rng.below(40)).hex() + ":" + "a0") if flavour == "mc" else "-",
                gen.show(g.named_val(t, present=sub, focus=True)))
    # members the SOURCE declares that the specification does not know (empty on the unchanged tree): a canonical map of the known
    # members plus the new one, decoded and re-encoded - the output must still be canonical (independent checker) and equal the model's
    for sname, key, val in gen.novel_members(schema, feats):
        d = schema[sname]
        if not (d.get("de") and d.get("ser")):
            continue
        for present in ("all", "none"):
            tree = g.named_wire(sname, present=present)
            pairs = [(k, v) for k, v in tree.pairs if k != key] + [(key, val)]
            pairs.sort(key=lambda kv: (len(cbor.enc(kv[0])), cbor.enc(kv[0])))
            add("reser", sname, cbor.enc(cbor.M(pairs)).hex())
    # the advertised algorithm list holds whatever identifiers the authenticator put there (any i32, duplicates included): every COSE
    # identifier in -70..7 and the range ends, alone, doubled and next to a supported one, stand-alone and inside GetInfo
    scan = list(range(-70, 8)) + [-259, -258, -257, -256, -65536, -65535, 23, 24, 255, 256, 65535, 65536, 2**31 - 1, -(2**31)]
    gi_t = RESPONSES.get("GetInfo")
    for a in scan:
        for algs in ([a], [a, a], [-7, a], [a, -8]):
            lst = ("L", [("R", [("alg", ("i", x))]) for x in algs])
            add("encty", "webauthn::FilteredPublicKeyCredentialParameters", gen.show(lst))
            if gi_t and algs in ([a], [-7, a]):
                base = g.named_val(gi_t, present=frozenset(["algorithms", "max_serialized_large_blob_array"]))
                fs = [(l, ("S", lst) if l == "algorithms" else v) for l, v in base[1]]
                add("enc2", "GetInfo", "7609", "-", gen.show(("R", fs)))
    return out


def judge(line, m, i):
    b = body_of(i)
    if b is not None and line.split("\t")[1] != "authdata":
        why = cbor.check_canonical(b)
        if why:
            return "emitted bytes are not CTAP2 canonical CBOR: " + why
    parts = line.split("\t")
    if parts[1] == "authdata":
        if i and i.startswith("ok "):
            b = bytes.fromhex(i[3:])
            acd = parts[6]
            off = 37
            if acd != "-":
                a, cid, key = acd.split(":")
                off += len(a) // 2 + 2 + len(cid) // 2 + len(key) // 2
            why = cbor.check_canonical(b[off:])
            if why:
                return "extension map in authenticator data is not canonical CBOR: " + why
        return None
    b = body_of(i)
    if b is not None:
        why = cbor.check_canonical(b)
        if why:
            return "emitted bytes are not CTAP2 canonical CBOR: " + why
    return None


def nontrivial(line, m):
    b = body_of(m)
    return b is not None and len(b) > 1


def classify(line, m):
    return line.split("\t")[1] + ":" + (m.split(" ")[0] if m else "none")


def minimise(mm):
    return mm
