"""C18 - protocol identifier tables are exact: every listed name/number, nothing else."""
from .. import cbor, core, gen
from .common import *

ID = "C18"
PROP_FILE = "C18"
RULE = ("every variant of every enumeration encoded (encty) ; for string enumerations every valid spelling, every single-character substitution/deletion/"
        "insertion, case change, prefix, one-character extension and extension by 1..23 (and 100) characters of each UTF-8 width of a valid spelling, the empty string and seeded random strings decoded (decty); for "
        "numeric enumerations all 256 byte values plus integers at the encoding thresholds up to 2^64-1 in every head width (decty); ControlByte::try_from and "
        "CredentialProtectionPolicy::try_from over all 256 bytes; every status code name; permission and flag bits. Non-trivial = distinct probe")
ASSUMPTIONS = []
EXHAUSTIVE = False
TECHNIQUE = "Coq proof: regenerated enumerations equal the specification tables (all feature sets); first-match lemmas for every string / every number; byte tables exhaustively; differential run with edit-distance-1 neighbours"
LEVEL_TEXT = ("Kernel-checked equality of every enumeration, match table, discriminant list and bit table regenerated from /repo with the specification's; "
              "theorems for every string and every integer that only the listed spellings / numbers are accepted and that identifiers are pairwise distinct; "
              "differential run over all variants, all 256 byte values and the neighbourhood of each spelling.")
feature_sets = default_feature_sets

STR_ENUMS = ["ctap2::get_info::Version", "ctap2::get_info::Extension", "ctap2::get_info::Transport", "ctap2::AttestationStatementFormat"]
NUM_ENUMS = ["ctap2::client_pin::PinV1Subcommand", "ctap2::credential_management::Subcommand", "ctap2::credential_management::CredentialProtectionPolicy"]
STATUS = ["Success", "InvalidCommand", "InvalidParameter", "InvalidLength", "InvalidSeq", "Timeout", "ChannelBusy", "LockRequired", "InvalidChannel",
          "CborUnexpectedType", "InvalidCbor", "MissingParameter", "LimitExceeded", "UnsupportedExtension", "FingerprintDatabaseFull", "LargeBlobStorageFull",
          "CredentialExcluded", "Processing", "InvalidCredential", "UserActionPending", "OperationPending", "NoOperations", "UnsupportedAlgorithm",
          "OperationDenied", "KeyStoreFull", "NotBusy", "NoOperationPending", "UnsupportedOption", "InvalidOption", "KeepaliveCancel", "NoCredentials",
          "UserActionTimeout", "NotAllowed", "PinInvalid", "PinBlocked", "PinAuthInvalid", "PinAuthBlocked", "PinNotSet", "PinRequired", "PinPolicyViolation",
          "PinTokenExpired", "RequestTooLarge", "ActionTimeout", "UpRequired", "UvBlocked", "IntegrityFailure", "InvalidSubcommand", "UvInvalid",
          "UnauthorizedPermission", "Other", "SpecLast", "ExtensionFirst", "ExtensionLast", "VendorFirst", "VendorLast"]
# the specification's numbers (CTAP 2.1 section 8.2), written here independently of the code and of coq/Spec
STATUS_SPEC = {"Success": 0, "InvalidCommand": 1, "InvalidParameter": 2, "InvalidLength": 3, "InvalidSeq": 4, "Timeout": 5, "ChannelBusy": 6, "LockRequired": 0xA,
               "InvalidChannel": 0xB, "CborUnexpectedType": 0x11, "InvalidCbor": 0x12, "MissingParameter": 0x14, "LimitExceeded": 0x15, "UnsupportedExtension": 0x16,
               "FingerprintDatabaseFull": 0x17, "LargeBlobStorageFull": 0x18, "CredentialExcluded": 0x19, "Processing": 0x21, "InvalidCredential": 0x22,
               "UserActionPending": 0x23, "OperationPending": 0x24, "NoOperations": 0x25, "UnsupportedAlgorithm": 0x26, "OperationDenied": 0x27, "KeyStoreFull": 0x28,
               "NotBusy": 0x29, "NoOperationPending": 0x2A, "UnsupportedOption": 0x2B, "InvalidOption": 0x2C, "KeepaliveCancel": 0x2D, "NoCredentials": 0x2E,
               "UserActionTimeout": 0x2F, "NotAllowed": 0x30, "PinInvalid": 0x31, "PinBlocked": 0x32, "PinAuthInvalid": 0x33, "PinAuthBlocked": 0x34, "PinNotSet": 0x35,
               "PinRequired": 0x36, "PinPolicyViolation": 0x37, "PinTokenExpired": 0x38, "RequestTooLarge": 0x39, "ActionTimeout": 0x3A, "UpRequired": 0x3B,
               "UvBlocked": 0x3C, "IntegrityFailure": 0x3D, "InvalidSubcommand": 0x3E, "UvInvalid": 0x3F, "UnauthorizedPermission": 0x40, "Other": 0x7F,
               "SpecLast": 0xDF, "ExtensionFirst": 0xE0, "ExtensionLast": 0xEF, "VendorFirst": 0xF0, "VendorLast": 0xFF}


def neighbours(s, rng):
    out = {s, "", s.upper(), s.lower(), s.swapcase(), s.capitalize(), s + " ", " " + s, s + "\x00", s + s}
    for i in range(len(s) + 1):
        out.add(s[:i])
        out.add(s[:i] + "x" + s[i:])
        out.add(s[:i] + "_" + s[i:])
    for i in range(len(s)):
        out.add(s[:i] + s[i + 1 :])
        out.add(s[:i] + ("X" if s[i] != "X" else "Y") + s[i + 1 :])
        out.add(s[:i] + s[i].swapcase() + s[i + 1 :])
    # extensions by characters of every UTF-8 width, so that every total byte length from len+1 to beyond any plausible internal buffer
    # is reached on and off a character boundary (a lossy intermediate buffer would cut the extension away again)
    for ch in ("a", "\u00e9", "\u20ac", "\U0001F600"):
        for c in range(1, 24):
            out.add(s + ch * c)
        out.add(ch + s)
        out.add(s + ch * 100)
    # a suffix or prefix of the spelling repeated (FIDO_2_1_PRE_PRE, FIDO_FIDO_2_0, hmac-secret-secret): stripping "all" occurrences of a
    # marker instead of one accepts exactly these
    for j in range(1, len(s) - 1):
        out.add(s + s[j:])
        out.add(s + s[j:] * 2)
        out.add(s[:j] + s)
    # strings of the same length that collide with the spelling under FNV-1a / FNV-1 / djb2 (a match on length + hash accepts them)
    for c in gen.hash_collisions(s, same_length=True):
        out.add(c)
    return sorted(out)


def cases(tier, rng, schema, feats):
    out = []
    n = 0

    def add(tag, op, *args):
        nonlocal n
        out.append(f"C18.{tag}.{n}\t{op}\t" + "\t".join(args))
        n += 1

    for t in STR_ENUMS:
        d = schema[t]
        for v, sp in d["variants"]:
            add("enc", "encty", t, "e:" + v)
            for s in neighbours(sp, rng):
                add("str", "decty", t, cbor.enc(s).hex())
            add("str", "decty", t, cbor.enc(sp.encode()).hex())  # byte string instead of text
        for _ in range(20 if tier == "quick" else 300):
            add("str", "decty", t, cbor.enc(cbor.T(gen.utf8_text(rng, rng.below(16)))).hex())
    for t in NUM_ENUMS:
        d = schema[t]
        for v, z in d["variants"]:
            add("enc", "encty", t, "e:" + v) if t.endswith("CredentialProtectionPolicy") else None
        for z in range(256):
            add("num", "decty", t, cbor.enc(z).hex())
        for z in (256, 257, 65535, 65536, 2**32 - 1, 2**32, 2**64 - 1, -1, -2, -256):
            add("num", "decty", t, cbor.enc(z).hex())
        for z in (1, 2, 3, 9, 23, 24):
            for w in (1, 2, 4, 8):
                add("num", "decty", t, cbor.enc(cbor.W(w, z)).hex())
    for b in range(256):
        add("byte", "ident", "credprotect", "%x" % b)
        add("byte", "ident", "control", "%x" % b)
    for name in STATUS:
        add("status", "ident", "status", name)
    for name in ("MAKE_CREDENTIAL", "GET_ASSERTION", "CREDENTIAL_MANAGEMENT", "BIO_ENROLLMENT", "LARGE_BLOB_WRITE", "AUTHENTICATOR_CONFIGURATION"):
        add("bits", "ident", "perm", name)
    for name in ("USER_PRESENCE", "USER_VERIFIED", "ATTESTED_CREDENTIAL_DATA", "EXTENSION_DATA"):
        add("bits", "ident", "flag", name)
    return out


def judge(line, m, i):
    if core.norm(m) != core.norm(i):
        return "model of the specification and implementation disagree"
    p = line.split("\t")
    if p[1] == "ident" and p[2] == "status" and i != "ok %x" % STATUS_SPEC[p[3]]:
        return f"status {p[3]} is not {STATUS_SPEC[p[3]]:#x}"
    return None


def nontrivial(line, m):
    return True


def classify(line, m):
    return line.split(".")[1] + ":" + (m or "none").split(" ")[0]
