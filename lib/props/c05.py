"""C05 - rejected CTAP2 requests report exactly the status code their fault calls for."""
from .. import cbor, core, gen, mutate
from .common import *

ID = "C05"
PROP_FILE = "C05"
RULE = ("well-formed seed messages for every command (several member subsets each, built from the specification tables) crossed with every single "
        "fault: removal of each required parameter and each required nested member, truncation at every byte offset, each key duplicated, each "
        "integer/length head re-encoded non-minimally (all wider widths), each container made indefinite-length, each member value replaced by a "
        "value of every other data type, each bounded member pushed one past its limit; plus all 256 command bytes; plus robustness inputs on every seed (surplus bytes after a "
        "complete map, map heads announcing one entry fewer / more, random byte edits) whose rejection status must lie in the three-element set. The implementation's status "
        "must equal the model's and must equal the status the fault class calls for (0x01 / 0x14 / 0x12). Non-trivial = distinct faulty message")
ASSUMPTIONS = ["sign changes of signed-integer members and null for text-struct Option members are not faults (excluded as in the property)"]
TECHNIQUE = "Coq proof: status range and status/fault-kind equivalences for all inputs; missing required member -> MissingParameter, duplicated key -> InvalidCbor (entry-loop theorems, any entry order); the decoder's verdict depends only on the bytes read, hence EVERY proper prefix of the encoding of every well-typed parameter value is InvalidCbor (truncation theorem, via totality + round trip); errors raised at any nesting depth propagate unchanged (induction over the decoder's calls relation), hence wrong-type faults at any depth are InvalidCbor; error-mapping tables regenerated from /repo; differential fault enumeration with a fault-class oracle"
LEVEL_TEXT = ("Theorems (Properties/C05.v): every rejection carries one of exactly three statuses for every input; 0x14 iff the typed decoder reported a missing member and 0x01 iff the command byte is "
              "unsupported (all 256 bytes); a parameter map in any order lacking a required parameter, or a nested structure lacking a required member, is SerdeMissingField; a key occurring a second time "
              "after any run of valid entries is a custom error (c05_duplicate_parameter / c05_duplicate_member); c05_verdict_prefix_stable (coq/Proofs/PrefixP.v dec_ext, by induction over the codec "
              "including the skipper and all element loops): a successful read and any failure other than UnexpectedEnd are unchanged by appending bytes; c05_truncation_is_invalid_cbor: for every "
              "command, every well-typed parameter value of any size and every proper prefix of its encoding, Request::deserialize answers 0x12. The error-mapping arms and status discriminants are "
              "regenerated from /repo and compared by the kernel. Reader-level fault classes are theorems too (c05_nonminimal_integer / _length, c05_eight_byte_length, c05_indefinite_length, c05_wrong_major: for every major type, value and "
              "continuation). Faults at any depth (coq/Proofs/DeepP.v): the decoder has no error recovery - outcome_propagates, by induction over the calls relation of the typed decoder through options, "
              "lists, indexed and text-keyed maps, skipped unknown members and the filtering lists; c05_error_at_any_depth: an error raised at any nesting depth is the request's status; "
              "c05_wrong_type_at_any_depth (and its counterpart for the regenerated declarations): a value of a wrong major type at any depth gives 0x12 in every feature set. The concrete positions "
              "are additionally enumerated over spec-built seeds and compared with the extracted model and with an independent fault-class oracle.")
feature_sets = default_feature_sets


def seeds(g, rng, tier):
    out = []
    for cmd, (variant, t) in REQUESTS.items():
        if cmd == 0x41:
            continue
        subs = ["none", "all"] + ([None] * (1 if tier == "quick" else 4))
        for sub in subs:
            out.append((cmd, t, g.named_wire(t, present=sub)))
    return out


def required_paths(schema, tname, tree, prefix=()):
    """(path of map, pair index) of every REQUIRED member present in the tree, recursively"""
    d = schema.get(tname)
    out = []
    if not d or d["kind"] != "struct" or not isinstance(tree, cbor.M):
        return out
    for i, (k, v) in enumerate(tree.pairs):
        f = next((f for f in d["fields"] if f["key"] == k or k in f["aliases"]), None)
        if f is None:
            continue
        if not f["opt"]:
            out.append((prefix, i))
        inner = f["ty"][1] if f["ty"][0] == "opt" else f["ty"]
        if inner[0] == "named":
            out += required_paths(schema, inner[1], v, prefix + (("v", i),))
        elif inner[0] == "vec" and inner[1][0] == "named" and isinstance(v, list):
            for j, e in enumerate(v):
                out += required_paths(schema, inner[1][1], e, prefix + (("v", i), ("e", j)))
    return out


def cases(tier, rng, schema, feats):
    g = gen.Gen(schema, rng, tier)
    out = []
    n = 0

    def add(cmd, tree_or_bytes, fault):
        nonlocal n
        b = tree_or_bytes if isinstance(tree_or_bytes, (bytes, bytearray)) else cbor.enc(tree_or_bytes)
        out.append(f"C05.{fault}.{n}\tdec2\t{bytes([cmd]).hex()}{bytes(b).hex()}")
        n += 1

    for b in range(256):
        add(b, b"", "cmd")
    out.append("C05.empty.0\tdec2\t")
    # list members whose decoder keeps only the first entries (pubKeyCredParams keeps 2, attestation formats 2):
    # a fault in ANY later entry is still a fault of the message
    from . import c14 as _c14
    long_params = [_c14.entry(-7, "public-key"), _c14.entry(-8, "public-key"), _c14.entry(-7, "public-key"),
                   _c14.entry(-257, "public-key"), _c14.entry(-8, "public-key")]
    long_fmts = ["packed", "none", "tpm", "android-key", "packed", "x"]
    extra_seeds = [(0x01, cbor.M([(1, b"\x11" * 32), (2, cbor.M([("id", "example.com")])), (3, cbor.M([("id", b"\x01")])),
                                  (4, long_params), (11, long_fmts)])),
                   (0x02, cbor.M([(1, "example.com"), (2, b"\x22" * 32), (9, long_fmts)]))]
    for cmd, tree in extra_seeds:
        add(cmd, tree, "seed")
        enc = cbor.enc(tree)
        for k in range(0, len(enc)):
            add(cmd, enc[:k], "trunc")
        for path, node in mutate.paths(tree):
            if not any(step[0] == "e" for step in path):
                continue  # only nodes inside the lists
            if isinstance(node, cbor.M):
                for i in range(len(node.pairs)):
                    add(cmd, mutate.dup_pair(tree, path, i), "dup")
                add(cmd, mutate.replace(tree, path, cbor.Indef(node)), "indef")
            if isinstance(node, (list, bytes, str, cbor.T)) and not isinstance(node, bool):
                add(cmd, mutate.replace(tree, path, cbor.Indef(node)), "indef")
            for w in mutate.wider_heads(node):
                add(cmd, mutate.replace(tree, path, w), "nonmin")
            if path[-1][0] in ("v", "e"):
                for tn, other in mutate.other_types(node):
                    if isinstance(node, int) and not isinstance(node, bool) and tn in ("uint", "nint"):
                        continue
                    add(cmd, mutate.replace(tree, path, other), "type")
    for cmd, t, tree in seeds(g, rng, tier):
        add(cmd, tree, "seed")
        enc = cbor.enc(tree)
        # removal of required members (top level and nested)
        for path, i in required_paths(schema, t, tree):
            add(cmd, mutate.remove_pair(tree, path, i), "missing")
        # COSE key members
        for path, node in mutate.paths(tree):
            if isinstance(node, cbor.M) and [k for k, _ in node.pairs] == [1, 3, -1, -2, -3]:
                for i in (0, 2, 3, 4):
                    add(cmd, mutate.remove_pair(tree, path, i), "missing")
        # truncation at every offset
        step = 1 if (tier != "quick" or len(enc) < 200) else max(1, len(enc) // 120)
        for k in range(0, len(enc), step):
            add(cmd, enc[:k], "trunc")
        # per node faults
        nodes = list(mutate.paths(tree))
        stride = 1 if tier != "quick" else max(1, len(nodes) // 60)
        for idx, (path, node) in enumerate(nodes):
            if idx % stride:
                continue
            if isinstance(node, cbor.M):
                for i in range(len(node.pairs)):
                    add(cmd, mutate.dup_pair(tree, path, i), "dup")
                    add(cmd, mutate.dup_pair(tree, path, i, at=i), "dup")
                    # a duplicate whose first / second occurrence is null (text-keyed maps accept null for optional members)
                    if isinstance(node.pairs[i][0], (str, cbor.T)):
                        add(cmd, mutate.dup_pair_null(tree, path, i, True), "dup")
                        add(cmd, mutate.dup_pair_null(tree, path, i, False), "dup")
                add(cmd, mutate.replace(tree, path, cbor.Indef(node)), "indef")
            if isinstance(node, (list, bytes, str, cbor.T)) and not isinstance(node, bool):
                add(cmd, mutate.replace(tree, path, cbor.Indef(node)), "indef")
            for w in mutate.wider_heads(node):
                add(cmd, mutate.replace(tree, path, w), "nonmin")
            if path and path[-1][0] in ("v", "e"):
                for tn, other in mutate.other_types(node):
                    if isinstance(node, int) and not isinstance(node, bool) and tn in ("uint", "nint"):
                        continue  # sign change of an integer member is not asserted
                    add(cmd, mutate.replace(tree, path, other), "type")
        # robustness inputs on the same seed: whatever they are rejected with must be one of the three codes
        # (a) surplus bytes after the complete parameter map (cbor_deserialize ignores them: still accepted)
        for extra in (b"\x00", b"\xff", b"\xa0", rng.bytes(1 + rng.below(8))):
            add(cmd, enc + extra, "robust")
        # (b) the map head announcing fewer entries than present (the rest becomes surplus), or more (-> end of input)
        if isinstance(tree, cbor.M) and 1 <= len(tree.pairs) < 23:
            add(cmd, bytes([0xA0 + len(tree.pairs) - 1]) + enc[1:], "robust")
            add(cmd, bytes([0xA0 + len(tree.pairs) + 1]) + enc[1:], "robust")
        # (c) random byte-level edits
        for mb in mutate.byte_mutations(rng, enc, 12 if tier == "quick" else 60):
            add(cmd, mb, "robust")
    return out


STATUS_BY_FAULT = {"missing": "err 14", "trunc": "err 12", "dup": "err 12", "nonmin": "err 12", "indef": "err 12", "empty": "err 12"}


def status_of(ans):
    a = core.norm(ans)
    return a if a.startswith("err") or a in ("panic", "missing", "hang") else "ok"


def judge(line, m, i):
    # C05's observation: rejected or not, and with which status (decoded values are C01's business)
    if status_of(m) != status_of(i):
        return f"status differs: the fault calls for {status_of(m)} (model of the specification), implementation answered {status_of(i)}"
    if i and i.startswith("err ") and i not in ("err 01", "err 12", "err 14"):
        return "rejection status outside {0x01, 0x12, 0x14}"
    fault = line.split(".")[1]
    want = STATUS_BY_FAULT.get(fault)
    if want and i != want:
        # truncation of a message may leave a complete shorter message only if nothing was cut
        return f"fault class '{fault}' calls for {want}, implementation answered {i}"
    if fault == "type" and i and not i.startswith("err 12") and not i.startswith("ok"):
        return f"wrong-type fault calls for err 12, implementation answered {i}"
    return None


def nontrivial(line, m):
    return bool(m) and m.startswith("err")


def classify(line, m):
    return line.split(".")[1] + ":" + (m or "none")[:6]
