"""C10 - each request reaches exactly the authenticator method for its command."""
from .. import cbor, core, gen
from .common import *
from . import c08

ID = "C10"
PROP_FILE = "C10"
RULE = ("every request variant of both protocols (10 CTAP2 incl. all 62 vendor codes, 3 CTAP1) x authenticator behaviour (each handler returning success or "
        "each of 6 distinct errors) x both entry points (protocol-specific call and generic Rpc::call) x with / without a large_blobs implementation, on "
        "sampled parameter payloads decoded from spec-built messages; a recording mock implements both traits and logs every handler invocation with the "
        "Debug form of its parameters. Expected: exactly one log entry, of the right handler, parameters identical to the request's, result wrapped in "
        "the same-named response or the error unchanged. Non-trivial = distinct (request, behaviour, entry point)")
ASSUMPTIONS = ["the translation of a match arm to a table row is syntactic (translator); the mock run cross-checks it"]
TECHNIQUE = "Coq proof: dispatch theorem universally quantified over the authenticator (state type, handler functions) on the regenerated dispatch tables; differential run with a recording mock"
LEVEL_TEXT = ("Theorem for every authenticator (arbitrary state type and handler behaviour), state and payload: dispatch applies exactly the one handler of the "
              "command, once, to the unchanged payload and wraps its result in the same-named response variant or returns its error unchanged; the log of a "
              "logging authenticator grows by exactly one entry. The dispatch tables are regenerated from the match arms in /repo. Differential run with a "
              "recording mock over both entry points and error behaviours.")


def feature_sets(tier):
    # dispatch must not depend on any feature: all eight wire-feature builds
    return core.all_wire_feature_sets()


ERRS = ["ok", "err:1", "err:2", "err:2e", "err:31", "err:27", "err:7f"]


def cases(tier, rng, schema, feats):
    g = gen.Gen(schema, rng, tier)
    out = []
    n = 0
    msgs = []
    for cmd, (variant, t) in REQUESTS.items():
        for k in range(2 if tier == "quick" else 8):
            msgs.append(bytes([cmd]) + cbor.enc(g.named_wire(t, present="all" if k == 0 else None)))
    # requests whose members are large (every well-formed request reaches its handler, whatever the size of what it carries)
    for L in (0, 1, 3007, 3008, 3009, 4096, 7000):
        msgs.append(b"\x0c" + cbor.enc(cbor.M([(2, b"\x5a" * L), (3, 0), (4, L)])))
        msgs.append(b"\x0c" + cbor.enc(cbor.M([(1, L), (3, 0)])))
    msgs.append(b"\x02" + cbor.enc(cbor.M([(1, "example.com"), (2, b"\x22" * 32), (3, [cbor.M([("id", b"\x01" * 255), ("type", "public-key")])] * 10)])))
    msgs.append(b"\x01" + cbor.enc(cbor.M([(1, b"\x11" * 32), (2, cbor.M([("id", "e" * 256), ("name", "n" * 300)])), (3, cbor.M([("id", b"\x01" * 64)])),
                                             (4, [cbor.M([("alg", -7), ("type", "public-key")])]), (5, [cbor.M([("id", b"\x02" * 255), ("type", "public-key")])] * 16)])))
    for b in (0x04, 0x07, 0x08, 0x0B):
        msgs.append(bytes([b]))
    for v in range(0x42, 0x80):
        msgs.append(bytes([v]))
    # Request::Vendor(code) constructed directly, for ALL 64 vendor codes (0x40 and 0x41 never come out of the decoder)
    for v in range(0x3e, 0x82):
        msgs.append(bytes([0xff, v]))
    for m in msgs:
        for beh in ERRS:
            for entry in ("call", "rpc"):
                for lbo in ("0", "1"):
                    out.append(f"C10.d2.{n}\tdispatch2\t{entry}\t{beh}\t{lbo}\t{m.hex()}")
                    n += 1
    apdus = [c08.apdu(0, 3, 0, 0, b"", "short"), c08.apdu(0, 1, 0, 0, rng.bytes(64), "short"), c08.apdu(0, 1, 0, 0, rng.bytes(64), "extle")]
    for p1 in (3, 7, 8):
        for khl in (0, 1, 64, 190):
            apdus.append(c08.apdu(0, 2, p1, 0, rng.bytes(64) + bytes([khl]) + rng.bytes(khl), "ext"))
    for a in apdus:
        behs = ["ok", "err:6985", "err:6a80", "err:6f00", "errd:SecurityStatusNotSatisfied", "errd:KeyReferenceNotFound", "errd:NotEnoughMemory"]
        # statuses carrying a payload byte, constructed directly (their u16 encoding is not injective in iso7816)
        for ctor, args in (("ErrorTriggering", (2, 3, 0x40, 0x80)), ("WarningTriggering", (2, 5, 0x80)), ("RemainingRetries", (0, 3, 15)),
                           ("MoreAvailable", (0, 1, 255)), ("WrongLeField", (0, 7, 255))):
            for arg in args:
                behs.append(f"errd:{ctor}({arg})")
        for beh in behs:
            for entry in ("call", "rpc"):
                out.append(f"C10.d1.{n}\tdispatch1\t{entry}\t{beh}\t{a.hex()}")
                n += 1
    return out


HANDLER = {0x01: "make_credential", 0x02: "get_assertion", 0x06: "client_pin", 0x0A: "credential_management", 0x41: "credential_management",
           0x0C: "large_blobs", 0x04: "get_info", 0x07: "reset", 0x08: "get_next_assertion", 0x0B: "selection"}
RESP = {0x01: "MakeCredential", 0x02: "GetAssertion", 0x06: "ClientPin", 0x0A: "CredentialManagement", 0x41: "CredentialManagement",
        0x0C: "LargeBlobs", 0x04: "GetInfo", 0x07: "Reset", 0x08: "GetNextAssertion", 0x0B: "Selection"}


def judge(line, m, i):
    if core.norm(m) != core.norm(i):
        return "model of the specification and implementation disagree"
    p = line.split("\t")
    if p[1] == "dispatch2" and i and i.startswith("log="):
        cmd = int(p[5][:2], 16)
        if cmd == 0xff:
            cmd = 0x7f  # directly constructed vendor request
        h = HANDLER.get(cmd, "vendor")
        r = RESP.get(cmd, "Vendor")
        beh, lbo = p[3], p[4]
        if h == "large_blobs" and lbo == "0":
            want = "log= result=err:1 same=true"
        elif beh == "ok" or h == "get_info":
            want = f"log={h} result=ok:{r} same=true"
        else:
            want = f"log={h} result={beh} same=true"
        if i != want:
            return f"dispatch contract calls for '{want}'"
    return None


def nontrivial(line, m):
    return True


def classify(line, m):
    return line.split(".")[1] + ":" + ((m or "none").split("result=")[1].split(" ")[0].split(":")[0] if m and "result=" in m else (m or "none").split(" ")[0])
