"""C01 - CTAP2 request decoding is faithful to the specification's parameter tables."""
from .. import cbor, core, gen
from .common import *

ID = "C01"
PROP_FILE = "C01"
RULE = ("for every parameter-bearing command (0x01, 0x02, 0x06, 0x0A, 0x41, 0x0C): every subset of optional top-level parameters "
        "(all subsets when 2^k <= limit, otherwise none/singletons/pairs/full/random), values from the boundary lattice and seeded random, "
        "canonical and shuffled key order, plus the nested dictionaries stand-alone with every subset of their optional members; messages are "
        "built from the SPECIFICATION tables (keys, types, limits), never from the code. Non-trivial = distinct message that decodes to a request")
ASSUMPTIONS = []
TECHNIQUE = "Coq proof: regenerated request declarations proved equal to the specification parameter tables (all 32 feature sets); entry-loop theorems (parameters in any order give exactly the record of the sent entries, for integer- and text-keyed maps); round-trip theorem (every well-typed parameter value decodes to itself); differential run on spec-generated messages"
LEVEL_TEXT = ("Kernel-checked equality between every deserialisable declaration regenerated from /repo (keys, order, types, capacities, optionality, aliases, helpers) and the hand-written specification tables, for all feature sets; theorems: the command byte selects the parameter type (all 256 bytes), entries of a parameter map in ANY order decode to the record holding under each member exactly the value sent (c01_indexed_map_faithful, c01_text_map_faithful), and via the round-trip theorem every well-typed value is recovered exactly; differential run of the extracted model against Request::deserialize on messages generated from the tables.")
feature_sets = default_feature_sets


def cases(tier, rng, schema, feats):
    g = gen.Gen(schema, rng, tier)
    out = []
    n = 0
    limit = 128 if tier == "quick" else 1024
    reps = 1 if tier == "quick" else 3
    for cmd, (variant, t) in REQUESTS.items():
        labels = g.optional_wire_labels(t)
        for sub in gen.subsets_or_sample(labels, rng, limit):
            for r in range(reps):
                tree = g.named_wire(t, present=sub, focus=rng.chance(1, 2))
                if rng.chance(1, 3):
                    tree = cbor.M(rng.shuffle(tree.pairs))
                out.append(f"C01.{n}\tdec2\t{bytes([cmd]).hex()}{cbor.enc(tree).hex()}")
                n += 1
    # nested dictionaries stand-alone
    for t in request_types(schema):
        d = schema[t]
        if d["kind"] != "struct" or not d["de"]:
            continue
        labels = g.optional_wire_labels(t)
        for sub in gen.subsets_or_sample(labels, rng, 32 if tier == "quick" else 256):
            tree = g.named_wire(t, present=sub, focus=True)
            if rng.chance(1, 3):
                tree = cbor.M(rng.shuffle(tree.pairs))
            out.append(f"C01.{n}\tdecty\t{t}\t{cbor.enc(tree).hex()}")
            n += 1
    # members the platform really sends although the tables do not list them (transports in descriptors, credProps / prf / credBlob in
    # extensions, new options), with list and map values of growing size: they are skipped whatever their size
    hints = ["usb", "nfc", "ble", "smart-card", "hybrid", "internal", "cable", "x1", "x2", "x3", "x4", "x5"]
    def desc(cnt):
        return cbor.M([("id", b"\x5a" * 16), ("type", "public-key"), ("transports", hints[:cnt])])
    for cnt in (0, 1, 2, 5, 6, 7, 8, 12):
        mcreq = cbor.M([(1, b"\x11" * 32), (2, cbor.M([("id", "example.com")])), (3, cbor.M([("id", b"\x01")])),
                        (4, [cbor.M([("alg", -7), ("type", "public-key")])]), (5, [desc(cnt), desc(1)])])
        out.append(f"C01.{n}\tdec2\t01{cbor.enc(mcreq).hex()}")
        n += 1
        gareq = cbor.M([(1, "example.com"), (2, b"\x22" * 32), (3, [desc(cnt)])])
        out.append(f"C01.{n}\tdec2\t02{cbor.enc(gareq).hex()}")
        n += 1
        for cmdb in (0x0A, 0x41):
            cmreq = cbor.M([(1, 6), (2, cbor.M([(2, desc(cnt))]))])
            out.append(f"C01.{n}\tdec2\t{cmdb:02x}{cbor.enc(cmreq).hex()}")
            n += 1
        ext = cbor.M([("credProps", True), ("prf", cbor.M([("evalByCredential", cbor.M([(str(j), cbor.M([("first", b"\x01" * 32)])) for j in range(cnt)]))])), ("hmac-secret", True)])
        mc2 = cbor.M([(1, b"\x11" * 32), (2, cbor.M([("id", "example.com")])), (3, cbor.M([("id", b"\x01")])),
                      (4, [cbor.M([("alg", -7), ("type", "public-key")])]), (6, ext), (7, cbor.M([("rk", True), ("largeBlob", ["a"] * cnt)]))])
        out.append(f"C01.{n}\tdec2\t01{cbor.enc(mc2).hex()}")
        n += 1
    # every COSE algorithm identifier of the registered neighbourhood offered in pubKeyCredParams, alone and with
    # the two supported ones: only -7 and -8 may come out, in the order sent
    from . import c14 as _c14
    k = len(out)
    for alg in list(range(-70, 8)) + [-257, -258, -259, -65535, 256]:
        for lst in ([_c14.entry(alg, "public-key")], [_c14.entry(alg, "public-key"), _c14.entry(-7, "public-key")],
                    [_c14.entry(-8, "public-key"), _c14.entry(alg, "public-key"), _c14.entry(-7, "public-key")]):
            out.append(f"C01.algid.{k}\tdec2\t{_c14.mc(lst).hex()}")
            k += 1
    return out


judge = eq_judge


def nontrivial(line, m):
    return bool(m) and m.startswith("ok")


def classify(line, m):
    if not m:
        return "none"
    p = m.split(" ")
    return p[0] + ":" + (p[1].split("(")[0] if p[0] == "ok" and line.split("\t")[1] == "dec2" else (p[1] if p[0] == "err" else line.split("\t")[2][:40]))
