"""C13 - over-long names are cut on a character boundary; over-long icons are dropped."""
import itertools
from .. import cbor, core, gen
from .common import *

ID = "C13"
PROP_FILE = "C13"
RULE = ("names / display names whose bytes around the 64-byte cut form every arrangement of 1-, 2-, 3- and 4-byte characters: an ASCII prefix of 56..64 bytes, "
        "then every sequence of up to four characters of widths 1..4 (4^4 patterns x 9 alignments), then an ASCII tail; total lengths 0..300; icon lengths "
        "0..300 incl. 127/128/129; in user and rp entities stand-alone and inside MakeCredential and CredentialManagement requests; rp icon and legacy url of "
        "any length; random Unicode; ill-formed UTF-8 (overlong, surrogates, > U+10FFFF, stray continuation, truncated sequence) at positions 0, 30, 61..66 and "
        "at the end. The answer must equal the model's and an independent Python oracle (longest valid prefix of at most 64 bytes; icon kept iff <= 128). "
        "Non-trivial = distinct text")
ASSUMPTIONS = ["core::str::from_utf8 is modelled by Unicode Table 3-7 (utf8_valid); thorough tier compares them exhaustively on all byte strings of length <= 3"]
TECHNIQUE = "Coq proof: floor_char_boundary / truncate theorems on the transcription of webauthn.rs (no panic site reachable, result is the longest boundary-aligned prefix) ; differential run over every character-width pattern around the cut with an independent oracle"
LEVEL_TEXT = ("The string helpers of webauthn.rs are transcribed with an explicit Panic value at the slice, the unwrap and the unwrap_unchecked; theorems state that "
              "on valid UTF-8 no Panic is reachable and the result is the longest prefix of at most 64 bytes ending on a character boundary (the text itself when it "
              "fits); icons above 128 bytes are reported absent. Differential run over all width patterns around the cut, all lengths 0..300, ill-formed UTF-8.")
feature_sets = default_feature_sets

CH = {1: "a", 2: "é", 3: "€", 4: "\U0001F600"}
BAD = [b"\xc0\x80", b"\xc1\xbf", b"\xe0\x80\x80", b"\xe0\x9f\xbf", b"\xed\xa0\x80", b"\xed\xbf\xbf", b"\xf0\x80\x80\x80", b"\xf0\x8f\xbf\xbf",
       b"\xf4\x90\x80\x80", b"\xf5\x80\x80\x80", b"\xff", b"\xfe", b"\x80", b"\xbf", b"\xc2", b"\xe2\x82", b"\xf0\x9f\x98", b"\xc2\x41", b"\xe2\x41\x80", b"\xf8\x88\x80\x80\x80"]


def user(name=None, display=None, icon=None, nid=b"\x01"):
    pairs = [("id", nid)]
    if icon is not None:
        pairs.append(("icon", icon))
    if name is not None:
        pairs.append(("name", name))
    if display is not None:
        pairs.append(("displayName", display))
    return cbor.M(pairs)


def rp(name=None, icon=None, key="icon"):
    pairs = [("id", "example.com")]
    if name is not None:
        pairs.append(("name", name))
    if icon is not None:
        pairs.append((key, icon))
    return cbor.M(pairs)


def mc(u, r=None):
    return b"\x01" + cbor.enc(cbor.M([(1, b"\x11" * 32), (2, r or rp()), (3, u), (4, [cbor.M([("alg", -7), ("type", "public-key")])])]))


def cm(u):
    return b"\x0a" + cbor.enc(cbor.M([(1, 7), (2, cbor.M([(3, u)]))]))


def cases(tier, rng, schema, feats):
    out = []
    n = 0

    def add(tag, op, *a):
        nonlocal n
        out.append(f"C13.{tag}.{n}\t{op}\t" + "\t".join(a))
        n += 1

    U = "webauthn::PublicKeyCredentialUserEntity"
    R = "webauthn::PublicKeyCredentialRpEntity"
    # every width pattern around the cut
    pats = [p for L in range(0, 5) for p in itertools.product((1, 2, 3, 4), repeat=L)]
    for pre in range(56, 65):
        for k, p in enumerate(pats):
            if tier == "quick" and len(p) == 4 and (k + pre) % 4:
                continue
            s = ("x" * pre + "".join(CH[w] for w in p) + "tail" * rng.below(3)).encode()
            t = cbor.T(s)
            which = (k + pre) % 4
            if which == 0:
                add("name", "decty", U, cbor.enc(user(name=t)).hex())
            elif which == 1:
                add("name", "decty", U, cbor.enc(user(display=t)).hex())
            elif which == 2:
                add("name", "decty", R, cbor.enc(rp(name=t)).hex())
            else:
                add("name", "dec2", mc(user(name=t, display=t)).hex())
    # one representative of every lead byte C2..F4 (and the first / last code point of special ranges: surrogate
    # neighbours, private use, specials U+FFxx, language tags U+E00xx, last code point), at every alignment to the
    # 64-byte cut, followed by a narrower character, with and without overflow
    reps = gen.utf8_reps()
    # sequences: two characters that text processing treats as a unit (emoji + joiner, base + combining mark / variation selector,
    # tag sequence, flag pair, emoji + skin tone) with the cut before, between and after them
    units = ["\u200d", "\ufe0f", "\u0301", "\U000e0001", "\U000e0065", "\U000e007f", "\U0001f1e6", "\U0001f468", "\U0001f3fb", " ", "\ufeff", "\u20e3", "a"]
    kk = 0
    for c1 in units:
        for c2 in units:
            pair = c1 + c2
            for end in (63, 64, 64 + len(c2.encode()), 65 + len(c2.encode())):   # byte offset at which c1 ends
                pre = end - len(c1.encode())
                if pre < 0:
                    continue
                for tail in ("", "z"):
                    t = cbor.T(("x" * pre + pair + tail).encode())
                    kk += 1
                    if kk % 3 == 0:
                        add("unit", "decty", U, cbor.enc(user(name=t)).hex())
                    elif kk % 3 == 1:
                        add("unit", "decty", R, cbor.enc(rp(name=t)).hex())
                    else:
                        add("unit", "dec2", mc(user(name=t, display=t)).hex())
    # a multi-byte character followed by each representative, the second one starting at 61..64: then no ASCII byte hides a
    # lead byte the boundary test misjudges (the scan window of floor_char_boundary holds lead bytes and continuation bytes only)
    kk2 = 0
    for c1 in ("\u00e9", "\u20ac", "\U0001f600"):
        for c2 in reps:
            for start in (61, 62, 63, 64):
                pre = start - len(c1.encode())
                t = cbor.T(("x" * pre + c1 + c2 + "tail").encode())
                kk2 += 1
                if kk2 % 3 == 0:
                    add("pair", "decty", U, cbor.enc(user(name=t)).hex())
                elif kk2 % 3 == 1:
                    add("pair", "decty", R, cbor.enc(rp(name=t)).hex())
                else:
                    add("pair", "dec2", mc(user(name=t, display=t)).hex())
    for k, c in enumerate(reps):
        w = len(c.encode())
        for end in range(62, 69):            # byte offset at which the character ends
            pre = end - w
            for tail in ("", "b", "bc" + c, c * 3):
                t = cbor.T(("x" * pre + c + tail).encode())
                if (k + end) % 3 == 0:
                    add("rep", "decty", U, cbor.enc(user(name=t)).hex())
                elif (k + end) % 3 == 1:
                    add("rep", "decty", R, cbor.enc(rp(name=t)).hex())
                else:
                    add("rep", "dec2", mc(user(name=t, display=t)).hex())
        # a run of the same character filling the text up to and across the limit
        for total in (60, 63, 64, 65, 72):
            m = max(1, total // w)
            t = cbor.T(("y" * (total - m * w if total >= m * w else 0) + c * m).encode())
            add("rep", "decty", U, cbor.enc(user(display=t)).hex())
    for L in range(0, 301):
        s = cbor.T(gen.utf8_text(rng, L))
        add("len", "decty", U, cbor.enc(user(name=s, display=cbor.T(gen.utf8_text(rng, L)))).hex())
        if L % 7 == 0:
            add("len", "dec2", cm(user(name=s)).hex())
            add("len", "dec2", mc(user(name=s), rp(name=s)).hex())
    # icons and names that START with something a helper might single out (URL schemes, markup, quoting, literals), at lengths
    # below, at and above the limits
    for pre in gen.TEXT_PREFIXES:
        for total in (len(pre.encode()), 43, 127, 128, 129, 200):
            body = (pre + "x" * max(0, total - len(pre.encode()))).encode()
            add("prefix", "decty", U, cbor.enc(user(icon=cbor.T(body))).hex())
            add("prefix", "decty", U, cbor.enc(user(name=cbor.T(body[:70]), display=cbor.T(body[:64]))).hex())
            add("prefix", "decty", R, cbor.enc(rp(name=cbor.T(body[:66]))).hex())
        add("prefix", "dec2", mc(user(icon=cbor.T((pre + "image/gif;base64,R0lGODlhAQABAAAAACw=").encode()))).hex())
    for L in range(0, 301):
        ic = cbor.T(gen.utf8_text(rng, L))
        add("icon", "decty", U, cbor.enc(user(icon=ic)).hex())
        if L in (0, 1, 127, 128, 129, 130, 255, 256, 300) or L % 16 == 0:
            add("icon", "dec2", mc(user(icon=ic)).hex())
            add("icon", "dec2", cm(user(icon=ic)).hex())
            add("rpicon", "decty", R, cbor.enc(rp(icon=ic)).hex())
            add("rpicon", "decty", R, cbor.enc(rp(icon=ic, key="url")).hex())
            add("rpicon", "dec2", mc(user(), rp(icon=ic)).hex())
    for L in (1000, 4000):
        add("rpicon", "decty", R, cbor.enc(rp(icon=cbor.T(b"i" * L))).hex())
        add("icon", "decty", U, cbor.enc(user(icon=cbor.T(b"i" * L))).hex())
        add("len", "decty", U, cbor.enc(user(name=cbor.T(b"n" * L))).hex())
    for bad in BAD:
        for pos in (0, 30, 61, 62, 63, 64, 65, 66, None):
            base = b"y" * 80
            s = base + bad if pos is None else base[:pos] + bad + base[pos:]
            add("bad", "decty", U, cbor.enc(user(name=cbor.T(s))).hex())
            add("bad", "decty", U, cbor.enc(user(icon=cbor.T(s))).hex())
            add("bad", "decty", R, cbor.enc(rp(icon=cbor.T(s))).hex())
            if pos in (0, 63, None):
                add("bad", "dec2", mc(user(display=cbor.T(s))).hex())
    if tier != "quick":
        for a in range(256):
            add("utf8", "decty", R, cbor.enc(rp(icon=cbor.T(bytes([a])))).hex())
            for b in range(256):
                add("utf8", "decty", R, cbor.enc(rp(icon=cbor.T(bytes([a, b])))).hex())
        for a in list(range(0xC0, 0x100)) + [0x7f, 0x80, 0xbf]:
            for b in range(0x70, 0x100):
                for c in range(0x70, 0x100, 1):
                    add("utf8", "decty", R, cbor.enc(rp(icon=cbor.T(bytes([a, b, c])))).hex())
    return out


def trunc(b, L=64):
    try:
        b.decode("utf-8")
    except UnicodeDecodeError:
        return None
    t = b[:L]
    while True:
        try:
            t.decode("utf-8")
            return t
        except UnicodeDecodeError:
            t = t[:-1]


def fields(tree, path):
    for k in path:
        if isinstance(tree, cbor.M):
            d = {(a.b.decode() if isinstance(a, cbor.T) else a): b for a, b in tree.pairs}
            tree = d.get(k)
        else:
            return None
    return tree


def show_name(t):
    if t is None:
        return "N"
    r = trunc(t.b if isinstance(t, cbor.T) else t.encode())
    return None if r is None else "S(s" + r.hex() + ")"


def judge(line, m, i):
    if core.norm(m) != core.norm(i):
        return "model of the specification and implementation disagree"
    p = line.split("\t")
    tag = line.split(".")[1]
    if p[1] == "decty" and p[2].endswith("UserEntity") and i:
        tree, _ = cbor.dec(bytes.fromhex(p[3]))
        d = {(a.b.decode() if isinstance(a, cbor.T) else a): b for a, b in tree.pairs}
        names = [("name", d.get("name")), ("display_name", d.get("displayName"))]
        icon = d.get("icon")
        invalid = any(x is not None and trunc(x.b) is None for x in (d.get("name"), d.get("displayName"), icon))
        if invalid:
            if not i.startswith("err"):
                return "text that is not valid UTF-8 was accepted"
            return None
        if not i.startswith("ok"):
            return "a valid name / icon was rejected"
        for lab, t in names:
            want = f"{lab}={show_name(t)}"
            if want not in i:
                return f"expected {want[:80]} (longest prefix of at most 64 bytes on a character boundary)"
        if icon is not None:
            want = "icon=S(s" + icon.b.hex() + ")" if len(icon.b) <= 128 else "icon=N"
            if want not in i:
                return "user icon must be kept verbatim up to 128 bytes and reported absent beyond"
    return None


def nontrivial(line, m):
    return True


def classify(line, m):
    return line.split(".")[1] + ":" + (m or "none").split(" ")[0]
