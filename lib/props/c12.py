"""C12 - size and range limits are exact; accepted values are never altered to fit."""
from .. import cbor, core, gen, mutate
from .common import *

ID = "C12"
PROP_FILE = "C12"
RULE = ("for every bounded member reachable from a request (bytes/text/list capacities, exact-length arrays, u8/u32/usize/i32 members, found by walking "
        "the SPECIFICATION tables): lengths/counts capacity-1, capacity, capacity+1 and far beyond; integers 0, max-1, max, max+1, 2^32, 2^63 and the "
        "negative counterparts for i32; each probed inside an otherwise valid message of every command that carries the member. The answer must equal the "
        "model's; at and below the limit the value must come back whole, above it the request must be rejected (or the member dropped / truncated for the "
        "documented lossy members). Non-trivial = distinct (command, member path, probe)")
ASSUMPTIONS = ["GetAssertion's and ClientPin's rpId are zero-copy &str without a bound; 'relying-party id 256' is the id member of the relying-party entity"]
TECHNIQUE = "Coq proof: reflexive limits table on the regenerated declarations; exact-capacity theorems of the typed decoder for byte strings, text, byte arrays, integers and element counts (both sides of each boundary, any content); every accepted well-typed value is returned unaltered (round-trip theorem); boundary differential run"
LEVEL_TEXT = ("Kernel-checked table of every capacity and integer width of the request-side declarations regenerated from /repo against the limits the property lists. Theorems: the decoder accepts a "
              "byte/text string iff its length is within the capacity and returns it verbatim; exact-length arrays; integers up to the type maximum unchanged and the next value rejected; c12_count_exact: "
              "a list of any well-typed elements is delivered whole when its count is at most N and rejected once N+1 elements have been read (heapless::Vec rule); c12_accepted_values_unaltered: every "
              "well-typed value of every type, at the declarations regenerated from /repo in every feature set, comes back from the decoder exactly; c12_accepted_is_within_limits (coq/Proofs/LimitsP.v dec_within): "
              "for EVERY input byte string, canonical or not, whatever the decoder accepts respects every declared capacity, length, range and count. Boundary probes of every bounded member inside "
              "valid messages are compared with the extracted model.")
feature_sets = default_feature_sets

INT_MAX = {"u8": 255, "u16": 65535, "u32": 2**32 - 1, "u64": 2**64 - 1, "usize": 2**64 - 1}


def probes(ty, rng):
    """(tag, cbor tree) probes around the limit of a leaf type; None when the type has no limit of its own"""
    k = ty[0]
    if k in INT_MAX:
        mx = INT_MAX[k]
        vals = [0, mx - 1, mx, mx + 1, 2**32, 2**63, 2**64 - 1, -1, -mx - 1]
        return [("int%d" % j, v) for j, v in enumerate(vals) if -(2**64) <= v < 2**64]
    if k == "i32":
        vals = [0, 2**31 - 2, 2**31 - 1, 2**31, 2**32, 2**63, -(2**31), -(2**31) - 1, -(2**32), -(2**63), -7, -8]
        return [("int%d" % j, v) for j, v in enumerate(vals)]
    if k == "bytescap":
        c = ty[1]
        return ([("len%d" % n, rng.bytes(n)) for n in sorted({max(0, c - 1), c, c + 1, c + 300})]
                + ([("seq%d" % n, [rng.below(256) for _ in range(n)]) for n in (c, c + 1)] if c <= 300 else []))
    if k in ("bytearrref", "bytearr"):
        c = ty[1]
        return ([("len%d" % n, rng.bytes(n)) for n in sorted({0, c - 1, c, c + 1, c + 300})]
                # the same lengths as a CBOR ARRAY of small integers: never a byte string of the required length
                + [("seq%d" % n, [rng.below(256) for _ in range(n)]) for n in (c - 1, c, c + 1, c + 8)])
    if k == "strcap":
        c = ty[1]
        return [("len%d" % n, cbor.T(gen.utf8_text(rng, n))) for n in sorted({max(0, c - 1), c, c + 1, c + 300})]
    return None


def walk(schema, g, rng, tname, tree, prefix, out, depth=0):
    """collect (path, tag, replacement) for every bounded member present in the tree"""
    d = schema.get(tname)
    if not d or depth > 6:
        return
    if d["kind"] == "custom":
        if tname == "webauthn::FilteredPublicKeyCredentialParameters" and isinstance(tree, list):
            for j, e in enumerate(tree[:2]):
                walk(schema, g, rng, "webauthn::PublicKeyCredentialParameters", e, prefix + (("e", j),), out, depth + 1)
            for n in (0, 1, 2, 3, 13, 64):
                out.append((prefix, f"count{n}", [cbor.M([("alg", -7 if j % 2 else -8), ("type", "public-key")]) for j in range(n)]))
        if tname == "ext::EcdhEsHkdf256PublicKey" and isinstance(tree, cbor.M):
            for i, lab in ((3, "x"), (4, "y")):
                for n in (31, 32, 33, 300):
                    out.append((prefix + (("v", i),), f"cose_{lab}{n}", rng.bytes(n)))
        return
    if d["kind"] != "struct" or not isinstance(tree, cbor.M):
        return
    for i, (k, v) in enumerate(tree.pairs):
        f = next((f for f in d["fields"] if f["key"] == k or k in f["aliases"]), None)
        if f is None:
            continue
        inner = f["ty"][1] if f["ty"][0] == "opt" else f["ty"]
        p = prefix + (("v", i),)
        if f["with"]:
            cap = inner[1]
            for n in sorted({cap - 1, cap, cap + 1, cap + 2, cap + 3, cap + 300}):
                out.append((p, f"{f['label']}.lossy{n}", cbor.T(gen.utf8_text(rng, n))))
            continue
        pr = probes(inner, rng)
        if pr:
            for tag, rep in pr:
                out.append((p, f"{f['label']}.{tag}", rep))
        elif inner[0] == "vec":
            cap = inner[2]
            elem = inner[1]
            for n in sorted({max(0, cap - 1), cap, cap + 1, cap + 40}):
                out.append((p, f"{f['label']}.count{n}", [g.wire(elem) for _ in range(n)]))
            if isinstance(v, list) and v and elem[0] == "named":
                walk(schema, g, rng, elem[1], v[0], p + (("e", 0),), out, depth + 1)
        elif inner[0] == "named":
            walk(schema, g, rng, inner[1], v, p, out, depth + 1)


def cases(tier, rng, schema, feats):
    g = gen.Gen(schema, rng, tier)
    out = []
    n = 0
    for cmd, (variant, t) in REQUESTS.items():
        for rep in range(1 if tier == "quick" else 3):
            tree = g.named_wire(t, present="all")
            # make sure lists are non-empty so nested members are reachable
            for path, node in list(mutate.paths(tree)):
                pass
            probes_ = []
            walk(schema, g, rng, t, tree, (), probes_)
            out.append(f"C12.seed.{n}\tdec2\t{bytes([cmd]).hex()}{cbor.enc(tree).hex()}")
            n += 1
            for path, tag, repl in probes_:
                try:
                    mt = mutate.replace(tree, path, repl)
                except Exception:
                    continue
                out.append(f"C12.{tag}.{n}\tdec2\t{bytes([cmd]).hex()}{cbor.enc(mt).hex()}")
                n += 1
    # the limits of a list ELEMENT hold at every position of the list, also after the result vector is full
    # (pubKeyCredParams keeps two entries; allow / exclude lists reject the whole list when over capacity)
    from . import c14 as _c14
    known = [_c14.entry(-7, "public-key"), _c14.entry(-8, "public-key"), _c14.entry(-7, "public-key")]
    probes2 = [("type32", _c14.entry(-7, "t" * 32)), ("type33", _c14.entry(-7, "t" * 33)), ("type200", _c14.entry(-8, "t" * 200)),
               ("algmax", _c14.entry(2**31 - 1, "public-key")), ("algmax1", _c14.entry(2**31, "public-key")),
               ("algmin", _c14.entry(-(2**31), "public-key")), ("algmin1", _c14.entry(-(2**31) - 1, "public-key")),
               ("alg2p32", _c14.entry(2**32, "public-key"))]
    for pos in range(0, 6):
        for tag, pr in probes2:
            lst = (known * 2)[:pos] + [pr] + known[: max(0, 2 - pos)]
            out.append(f"C12.elem{tag}.{n}\tdec2\t{_c14.mc(lst).hex()}")
            n += 1
    # two limits at once: descriptor lists at, one over and two over their capacity (allow list 10, exclude list 16) in which one, two
    # or all entries - at the first, a middle and the last position - carry a credential id at, one over and well over the id limit,
    # or a type of 33 bytes: each limit is exact whatever the other one does
    def desc(idlen, ty="public-key"):
        return cbor.M([("id", rng.bytes(idlen)), ("type", ty)])
    for cmd, key, cap in ((2, 3, 10), (1, 5, 16)):
        for count in (cap - 1, cap, cap + 1, cap + 2):
            for idlen in (255, 256, 300, 1023, 1024, 1025):
                for where in ([0], [2], [count - 1], [0, 1], [2, count - 1], list(range(count))):
                    lst = [desc(idlen if j in where else 16) for j in range(count)]
                    if cmd == 2:
                        tree = cbor.M([(1, "example.com"), (2, rng.bytes(32)), (3, lst)])
                    else:
                        tree = cbor.M([(1, rng.bytes(32)), (2, cbor.M([("id", "example.com")])), (3, cbor.M([("id", b"\x01")])),
                                       (4, [cbor.M([("alg", -7), ("type", "public-key")])]), (5, lst)])
                    out.append(f"C12.two.{n}\tdec2\t{bytes([cmd]).hex()}{cbor.enc(tree).hex()}")
                    n += 1
    return out


judge = eq_judge


def nontrivial(line, m):
    return True


def classify(line, m):
    t = line.split(".")[1:3]
    return (t[1] if len(t) > 1 and not t[1][0].isdigit() else t[0])[:14].rstrip("0123456789") + ":" + (m or "none").split(" ")[0]
