"""C04 - decoding untrusted CTAP2 bytes never panics, aborts or hangs."""
from .. import cbor, core, gen, mutate
from .common import *

ID = "C04"
PROP_FILE = "C04"
RULE = ("all byte strings of length <= 2 exhaustively (thorough: <= 3 for the parameter-bearing command bytes) ; well-formed messages for every command "
        "under byte-level mutation (flip, replace, insert, delete, splice, truncate) and structure-level mutation (every string/bytes/array member grown "
        "across its capacity, integers pushed across their range, unknown members with deep nesting up to the 7609-byte limit: 7600 nested arrays, "
        "maps, tags); the public nested types decoded stand-alone. Debug build (overflow checks, debug assertions); any unwind, abort, stack overflow "
        "or hang of the implementation is a mismatch by construction, and the outcome (value or error variant) must equal the model's. "
        "Non-trivial = distinct input that is not the empty string")
ASSUMPTIONS = ["stack consumption of the recursive skipper is a runtime aspect: the theorem bounds recursion depth by the input length; the harness runs the deepest nestings that fit 7609 bytes",
               "undefined behaviour that does not trap is outside the model (debug assertions trap the unwrap_unchecked precondition)"]
TECHNIQUE = "Coq proof: the typed decoder and ctap2::Request::deserialize are total (no Panic site reached, fuel never exhausted, every read consumes input) for every byte string in every feature configuration, by induction on the type fuel with loop lemmas; decodability of the regenerated declarations is a kernel obligation; differential run incl. exhaustive short inputs and deep nesting, panics caught"
LEVEL_TEXT = ("Theorems (coq/Proofs/TotalP.v, Properties/C04.v): dec_total - for every environment e, fuel k and type t with decodable e k t = true, dec e k t i is Ok or Err "
              "for EVERY byte string i (never Panic, never Fuel) and a successful read leaves strictly less input; this covers the element loops of Vec, the serde-indexed and "
              "serde-derive member loops, the skipper on unknown members (terminates within fuel 2*len+2), the cosey key reader, the filters, and the webauthn.rs string helpers "
              "(slice at split, push_str().unwrap(), unwrap_unchecked in floor_char_boundary are unreachable because the text was validated as UTF-8 first). "
              "c04_request_deserialize_total / c04_generated_request_deserialize_total lift this to Request::deserialize for all bytes, both at the specification tables and at the "
              "declarations regenerated from /repo (decodability of every request parameter type in all 32 feature sets is evaluated by the kernel on every run). "
              "Every Rust panic site on the decode path is an explicit Panic value in the model; the differential run (exhaustive short inputs, byte- and structure-level "
              "mutation, nesting to the message-size limit, debug build) shows model and implementation agree on the outcome, with no unwind/abort/hang. Stack use and "
              "non-trapping UB are named as outside the model.")
def feature_sets(tier):
    # also with every logging statement of the crate compiled in and evaluated (`log-all`): an argument of a log statement that
    # slices or unwraps can panic on untrusted input only in such a build
    return default_feature_sets(tier) + [["log-all"], core.WIRE_FEATURES + ["log-all"]]


def cases(tier, rng, schema, feats):
    g = gen.Gen(schema, rng, tier)
    out = []
    n = 0

    def add(op, *args, tag="m"):
        nonlocal n
        out.append(f"C04.{tag}.{n}\t{op}\t" + "\t".join(args))
        n += 1

    # exhaustive short inputs
    add("dec2", "", tag="x")
    for a in range(256):
        add("dec2", "%02x" % a, tag="x")
    cmds = list(REQUESTS.keys())
    for a in (range(256) if tier != "quick" else cmds + [0x04, 0x00, 0x40, 0x7f, 0xff]):
        for b in range(256):
            add("dec2", "%02x%02x" % (a, b), tag="x")
    for a in cmds:
        bs = range(256) if tier != "quick" else [0xa0, 0xa1, 0xa2, 0xb8, 0xb9, 0xba, 0xbb, 0xbf, 0x80, 0x00, 0x60, 0xf6]
        for b in bs:
            cs = range(256) if tier != "quick" else list(range(0, 32)) + [0x40, 0x41, 0x58, 0x60, 0x61, 0x78, 0x80, 0xa0, 0xf4, 0xf6, 0xff]
            for c in cs:
                add("dec2", "%02x%02x%02x" % (a, b, c), tag="x")
    # mutated well-formed messages
    nseeds = 3 if tier == "quick" else 12
    nmut = 60 if tier == "quick" else 400
    for cmd, (variant, t) in REQUESTS.items():
        for s in range(nseeds):
            tree = g.named_wire(t, present="all" if s == 0 else None)
            enc = bytes([cmd]) + cbor.enc(tree)
            add("dec2", enc.hex(), tag="seed")
            for mb in mutate.byte_mutations(rng, enc, nmut):
                add("dec2", mb.hex())
    # stand-alone nested types
    for t in request_types(schema):
        d = schema[t]
        if d["kind"] == "struct" and d["de"]:
            tree = g.named_wire(t, present="all")
            enc = cbor.enc(tree)
            add("decty", t, enc.hex(), tag="seed")
            for mb in mutate.byte_mutations(rng, enc, 20 if tier == "quick" else 100):
                add("decty", t, mb.hex())
    # deep nesting of unknown members inside an extensible map (options of MakeCredential)
    base = [(1, b"\x11" * 32), (2, cbor.M([("id", "example.com")])), (3, cbor.M([("id", b"\x01")])), (4, [cbor.M([("alg", -7), ("type", "public-key")])])]
    for kind in ("array", "map", "tag"):
        for depth in ([1, 100, 1000, 3700 if kind == "map" else 7400] if tier == "quick" else [1, 10, 100, 1000, 2000, 3000, 3700 if kind == "map" else 7400]):
            unk = mutate.nested(depth, 0, kind)
            m = cbor.M(base + [(7, cbor.M([("rk", True), ("zz", unk)]))])
            enc = bytes([1]) + cbor.enc(m)
            if len(enc) <= 7609 + 200:
                add("dec2", enc.hex(), tag="deep")
            # truncated deep nesting (runs out of input inside the recursion)
            add("dec2", enc[: len(enc) // 2].hex(), tag="deep")
    # huge declared lengths
    for head in ("9bffffffffffffffff", "9affffffff", "bb0000000100000000", "5affffffff", "7affffffff", "9a00010000", "ba00010000"):
        add("dec2", "01a107a1627a7a" + head, tag="len")
        add("dec2", "02a201" + head, tag="len")
        add("dec2", "01a104" + head, tag="len")
    # long lists of unsupported entries inside well-formed requests (counters, early exits): 200..300 entries
    from . import c14 as _c14
    for count in (200, 255, 256, 257, 300):
        add("dec2", _c14.mc([_c14.entry(-257, "public-key")] * count).hex(), tag="long")
        add("dec2", _c14.mc([_c14.entry(-7, "public-key")], ["tpm"] * count).hex(), tag="long")
        add("dec2", (b"\x02" + cbor.enc(cbor.M([(1, "example.com"), (2, b"\x22" * 32), (9, ["android-key"] * count)]))).hex(), tag="long")
        add("dec2", _c14.mc([_c14.entry(-8, "public-key")] * count, ["packed"] * count).hex(), tag="long")
    # every sequence of length <= 5 over {ES256, EdDSA, unsupported, unknown type} for the filtered algorithm list and over
    # {packed, none, unknown} for the attestation-format list: internal assumptions about which entries can overflow the
    # result vector (duplicates, order) are exercised in every arrangement
    import itertools
    alpha = [_c14.entry(-7, "public-key"), _c14.entry(-8, "public-key"), _c14.entry(-257, "public-key"), _c14.entry(-7, "other")]
    for k in range(0, 6 if tier != "quick" else 5):
        for seq in itertools.product(range(4), repeat=k):
            add("dec2", _c14.mc([alpha[j] for j in seq]).hex(), tag="seq")
    falpha = ["packed", "none", "tpm"]
    for k in range(0, 6):
        for seq in itertools.product(range(3), repeat=k):
            add("dec2", _c14.mc([alpha[0]], [falpha[j] for j in seq]).hex(), tag="seq")
    # SATURATED text: every text value of every request (names, ids, `type` strings of list entries, unknown members) replaced by text
    # that fills 30..32, 62..64, 126..128 and 254..256 bytes with one repeated character whose lower-case, upper-case or normalised form
    # has a different length in UTF-8 (U+0130 grows when lower-cased, U+00DF and the ligatures when upper-cased, the Kelvin sign
    # shrinks): a copy transformed into a buffer of the same capacity overflows only for these
    from .. import mutate as _mut
    sens = ["\u0130", "\u023a", "\u023e", "\u00df", "\ufb01", "\u0149", "\u01f0", "\u0390", "\u212a", "\u212b", "\u1e9e", "\u0131", "\u017f"]
    gs = gen.Gen(schema, rng.fork("sat"), tier)
    for cmd, (variant, t) in REQUESTS.items():
        tree = gs.named_wire(t, present="all")
        texts = [pth for pth, node in _mut.paths(tree) if isinstance(node, (str, cbor.T)) and pth and pth[-1][0] in ("v", "e")]
        for pth in texts:
            for ch in sens:
                w = len(ch.encode())
                for total in (30, 31, 32, 62, 63, 64, 126, 127, 128, 254, 255, 256):
                    if tier == "quick" and total in (30, 62, 126, 254):
                        continue
                    k = total // w
                    txt = "a" * (total - k * w) + ch * k
                    try:
                        mt = _mut.replace(tree, pth, txt)
                    except Exception:
                        continue
                    add("dec2", (bytes([cmd]) + cbor.enc(mt)).hex(), tag="sat")
    # the text-boundary corpus of C13 (every class of character at every alignment to the 64 / 128 byte limits): the string helpers
    # contain an unchecked unwrap and slice indexing
    from . import c13 as _c13
    for line in _c13.cases(tier, rng.fork("c13"), schema, feats):
        f = line.split("\t")
        add(f[1], *f[2:], tag="txt")
    return out


def judge(line, m, i):
    ni = core.norm(i)
    if ni in ("panic", "missing", "hang") or ni.startswith("abort"):
        return "implementation did not return: " + (i or "no answer")[:200]
    # C04's observation is "returns a request or an error status"; WHICH value or status is the business
    # of C01/C05/C12.  The model must agree that the input does not reach a panic site.
    if core.norm(m) in ("panic", "fuel"):
        return "the model reaches a Panic/Fuel value on this input while the implementation returned: the totality argument does not cover it"
    return None


def nontrivial(line, m):
    return len(line.split("\t")[-1]) > 0


def classify(line, m):
    return line.split(".")[1] + ":" + " ".join((m or "none").split(" ")[:2])[:24]
