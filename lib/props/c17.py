"""C17 - a response fits the transport buffer completely or becomes a one-byte error."""
from .. import cbor, core, gen
from .common import *

ID = "C17"
PROP_FILE = "C17"
RULE = ("every response kind with bodies from 0 bytes to > 4 KiB (a variable-length member is stretched so that the body size crosses every "
        "capacity of the harness menu at size-2..size+2), capacities 1, 2, 3 and transport sizes; buffer initially empty, partially filled and "
        "completely filled with a sentinel; the answer must be the complete message or exactly 7F and must not depend on the prior contents. "
        "Non-trivial = distinct (variant, value, capacity, prior)")
ASSUMPTIONS = ["capacities are const generics: the harness monomorphises a menu of 114 capacities; the theorem covers every N >= 1"]
TECHNIQUE = "Coq proof: fits-or-7F theorem for every response value, capacity N>=1 and prior buffer (one recorded exception class N=1 with empty map); differential run around every capacity of the menu"
LEVEL_TEXT = ("Theorem on the model of Response::serialize for every response value, every capacity N >= 1 and every prior buffer: the result is the "
              "complete message when the CBOR body fits the N-1 scratch bytes and exactly [0x7F] otherwise, never a truncated body, independent of the "
              "prior contents; corollaries: monotone in the capacity and a single threshold |body| + 1; the class (N = 1, body = empty map) where the property's reading differs is proved to be the only exception and is "
              "replayed as a known finding; differential run crossing every capacity boundary.")
feature_sets = default_feature_sets

CAPS = [1, 2, 3, 4, 5, 6, 7, 8, 9, 10, 16, 32, 40, 64, 65, 66, 80, 96, 100, 127, 128, 129, 200, 255, 256, 257, 258, 259, 260, 300, 400, 500, 512,
        600, 700, 800, 900, 1000, 1023, 1024, 1025, 1200, 1500, 2000, 2048, 3000, 3072, 4096, 5000, 7609]

WITNESSES = [
    {"id": "F3", "features": [], "case": "C17.witness.f3\tenc2\tClientPin\t1\t-\t{key_agreement=N;pin_token=N;retries=N;power_cycle_state=N;uv_retries=N}",
     "property_demands": "buf 00",
     "what": "capacity N=1 with a response whose CBOR body is the empty map: the complete message [00] fits, but the encoder needs one scratch byte for A0, fails and leaves [7F]"},
]


def cases(tier, rng, schema, feats):
    g = gen.Gen(schema, rng, tier)
    out = []
    n = 0

    def add(variant, cap, prior, v):
        nonlocal n
        out.append(f"C17.{n}\tenc2\t{variant}\t{cap}\t{prior}\t{v}")
        n += 1

    def priors(cap):
        ps = ["-"]
        if cap > 0:
            ps.append((b"\xee" * cap).hex())
            ps.append((b"\xee" * (cap // 2)).hex() or "-")
        return ps

    nvals = 6 if tier == "quick" else 30
    for variant, t in RESPONSES.items():
        for k in range(nvals):
            val = g.named_val(t, present=None if k else "none", focus=rng.chance(1, 2))
            v = gen.show(val)
            for cap in [1, 2, 3, 64, 256, 1024, 3072, 7609]:
                for p in (priors(cap) if cap <= 256 else ["-", (b"\xee" * cap).hex()]):
                    add(variant, cap, p, v)
    # stretch: GetAssertion auth_data / signature, GetInfo, LargeBlobs config (with large-blobs) across each capacity
    stretch = [("GetAssertion", "ctap2::get_assertion::Response", "auth_data", 676), ("MakeCredential", "ctap2::make_credential::Response", "auth_data", 676)]
    if "large-blobs" in feats:
        stretch.append(("LargeBlobs", "ctap2::large_blobs::Response", "config", 3008))
    for variant, t, member, mcap in stretch:
        base = g.named_val(t, present="none")
        for cap in CAPS:
            if tier == "quick" and cap > 700 and cap not in (1024, 3072):
                continue
            for delta in (-2, -1, 0, 1, 2):
                want = cap - 1 + delta  # body size we aim at
                fs = dict(base[1])
                # crude: set the member length so the total lands near `want`
                for mlen in {max(0, min(mcap, want - 12)), max(0, min(mcap, want - 20)), max(0, min(mcap, want - 30))}:
                    f2 = dict(fs)
                    if member == "config":
                        f2[member] = ("S", ("b", b"\x77" * mlen))
                    else:
                        f2[member] = ("b", b"\x77" * mlen)
                    add(variant, cap, "-" if delta else (b"\xee" * min(cap, 300)).hex(), gen.show(("R", list(f2.items()))))
    for variant in UNIT_RESPONSES:
        for cap in (1, 2, 3, 64):
            for p in priors(cap):
                add(variant, cap, p, "-")
    # sliding window: small values of every response (byte strings and text cut to a few bytes, lists to zero / one element, every
    # optional member set, then random subsets) against EVERY capacity 1..80, so that the buffer ends at every offset of every member -
    # inside a key, inside a nested map, between two members of a nested structure
    def small(ty, v, flip):
        """type-directed: only variable-length byte strings, text and lists are cut; fixed-size arrays and keys stay whole"""
        k = ty[0]
        if k in ("bytescap", "bytesref", "sliceref") and v[0] == "b":
            return ("b", v[1][: rng.choice([0, 3, 6, 12, 20])])
        if k in ("strcap", "strref") and v[0] == "s":
            t = v[1][: rng.choice([0, 2, 5, 11])]
            if isinstance(t, (bytes, bytearray)):
                t = bytes(t).decode("utf-8", errors="ignore").encode()   # never cut inside a character
            return ("s", t)
        if k == "vec" and v[0] == "L":
            xs = [small(ty[1], x, flip) for x in v[1]]
            return ("L", [] if rng.chance(1, 2) else xs[:1])
        if k == "opt":
            return ("S", small(ty[1], v[1], flip)) if v[0] == "S" else v
        if k == "named":
            d = schema.get(ty[1])
            if d and d["kind"] == "struct" and v[0] == "R":
                tys = {f["label"]: f["ty"] for f in d["fields"]}
                return ("R", [(l, small(tys[l], x, flip) if l in tys else x) for l, x in v[1]])
            if d and d["kind"] == "untagged" and v[0] == "V":
                vt = dict(d["variants"]).get(v[1])
                return ("V", v[1], small(vt, v[2], flip)) if vt else v
            if d and d["kind"] == "custom" and v[0] == "L":
                return ("L", [] if rng.chance(1, 2) else v[1][:1])
        return v
    nsmall = 12 if tier == "quick" else 40
    for variant, t in RESPONSES.items():
        for j in range(nsmall):
            val = small(("named", t), g.named_val(t, present="all" if j < nsmall // 2 else None), False)
            v = gen.show(val)
            for cap in range(1, 81):
                add(variant, cap, "-", v)
    # one LONG member, all others small: each variable-length byte string / text of each response in turn stretched to 60 / 100 / 200
    # bytes (or its capacity), against every capacity of the menu from (message size - that length - 8) to (message size + 2) - the
    # capacities at which the long member is the first thing that does not fit while everything after it would
    def stretch(ty, v, idx, ctr, L):
        k = ty[0]
        if k in ("bytescap", "bytesref", "sliceref", "strcap", "strref") and v[0] in ("b", "s"):
            me = ctr[0]
            ctr[0] += 1
            if me == idx:
                n = min(L, ty[1]) if k in ("bytescap", "strcap") else L
                return ("b", rng.bytes(n)) if v[0] == "b" else ("s", b"l" * n)
            return v
        if k == "vec" and v[0] == "L":
            return ("L", [stretch(ty[1], x, idx, ctr, L) for x in v[1]])
        if k == "opt":
            return ("S", stretch(ty[1], v[1], idx, ctr, L)) if v[0] == "S" else v
        if k == "named":
            d = schema.get(ty[1])
            if d and d["kind"] == "struct" and v[0] == "R":
                tys = {f["label"]: f["ty"] for f in d["fields"]}
                order = [f["label"] for f in d["fields"]]
                vals = dict(v[1])
                return ("R", [(l, stretch(tys[l], vals[l], idx, ctr, L)) for l in order if l in vals] + [(l, x) for l, x in v[1] if l not in tys])
            if d and d["kind"] == "untagged" and v[0] == "V":
                vt = dict(d["variants"]).get(v[1])
                return ("V", v[1], stretch(vt, v[2], idx, ctr, L)) if vt else v
        return v
    menu = sorted(set(CAPS) | set(range(1, 81)))
    probes = []
    for variant, t in RESPONSES.items():
        for j in range(2 if tier == "quick" else 8):
            base = small(("named", t), g.named_val(t, present="all"), False)
            ctr = [0]
            stretch(("named", t), base, -1, ctr, 0)
            for idx in range(ctr[0]):
                for L in (60, 100, 200):
                    probes.append((variant, gen.show(stretch(("named", t), base, idx, [0], L)), L))
    # the size of each complete message, from the model (the largest capacity holds every one of them)
    sizes = core.run_model([f"P{k}\tenc2\t{variant}\t7609\t-\t{v}" for k, (variant, v, L) in enumerate(probes)], feats)
    for k, (variant, v, L) in enumerate(probes):
        a = sizes.get(f"P{k}") or ""
        if not a.startswith("buf 00"):
            continue
        size = len(a[4:]) // 2
        for cap in menu:
            if size - L - 8 <= cap <= size + 2:
                add(variant, cap, "-", v)
    # the one nested structure with several members of very different sizes (packed attestation statement): every combination of a
    # short / medium signature with x5c absent, empty and holding one short certificate, against every capacity of the menu up to 129
    for variant, t in (("MakeCredential", RESPONSES["MakeCredential"]), ("GetAssertion", RESPONSES["GetAssertion"])):
        for sigl in (0, 8, 20, 40):
            for x5c in (("N",), ("S", ("L", [])), ("S", ("L", [("b", b"\x30\x03\x01\x02\x03")])),
                        # certificates whose DER header declares more, exactly as much, and less than the entry holds
                        ("S", ("L", [("b", b"\x30\x82\x02\x00" + b"\x11" * 12)])), ("S", ("L", [("b", b"\x30\x82\x00\x08" + b"\x22" * 8)])),
                        ("S", ("L", [("b", b"\x30\x82\x00\x02" + b"\x33" * 9)]))):
                base = small(("named", t), g.named_val(t, present="none"), False)
                st = ("S", ("V", "Packed", ("R", [("alg", ("i", -7)), ("sig", ("b", b"\x5a" * sigl)), ("x5c", x5c)])))
                fs = [(l, st if l == "att_stmt" else x) for l, x in base[1]]
                if variant == "MakeCredential":
                    fs = [(l, ("E", "Packed") if l == "fmt" else x) for l, x in fs]
                v = gen.show(("R", fs))
                for cap in [c for c in CAPS if c <= 129] + list(range(11, 81)):
                    add(variant, cap, "-", v)
    # the advertised algorithm list with identifiers the request decoder would never keep (any i32 is a legal value of the public
    # field): the message fits, so it must be delivered - at its exact size, one more, and the usual large capacities
    gi_t = RESPONSES.get("GetInfo")
    if gi_t:
        for a in list(range(-70, 8)) + [-257, -65536, 255, 65536, 2**31 - 1, -(2**31)]:
            for algs in ([a], [-7, a]):
                base = g.named_val(gi_t, present=frozenset(["algorithms"]))
                lst = ("L", [("R", [("alg", ("i", x))]) for x in algs])
                fs = [(l, ("S", lst) if l == "algorithms" else x) for l, x in base[1]]
                v = gen.show(("R", fs))
                for cap in (64, 80, 96, 100, 128, 256, 7609):
                    add("GetInfo", cap, "-", v)
    return out


def outcome(ans):
    a = core.norm(ans)
    if a == "buf 7f":
        return "7f"
    if a.startswith("buf 00"):
        return "message"
    return a


def judge(line, m, i):
    # observation: complete message or exactly 7F, decided by whether the body fits; the body bytes themselves are C02's business
    if i and i.startswith("buf "):
        b = bytes.fromhex(i[4:])
        if not (b == b"\x7f" or (b and b[0] == 0)):
            return "buffer holds neither a complete message (status 00 first) nor exactly 7F"
        if b and b[0] == 0 and len(b) > 1 and cbor.check_canonical(b[1:]) in ("truncated", "truncated head", "truncated string", "trailing bytes"):
            return "body after the status byte is not one complete CBOR item (truncated or trailing bytes)"
    if outcome(m) != outcome(i):
        return f"fit decision differs: model of the specification gives {outcome(m)}, implementation {outcome(i)}"
    if outcome(m) == "message" and m and i and len(m) != len(i):
        return "message length differs from the model's complete message"
    return None


def cross(results):
    """the result must not depend on what the buffer held before the call"""
    bad = []
    seen = {}
    for cid, (line, m, i) in results.items():
        p = line.split("\t")
        if p[1] != "enc2":
            continue
        key = (p[2], p[3], p[5])
        if key in seen and seen[key][1] != i:
            bad.append((line, seen[key][1], i, "result depends on the prior buffer contents (same response and capacity, different prior)"))
        seen.setdefault(key, (line, i))
    return bad


def nontrivial(line, m):
    return True


def classify(line, m):
    if not m:
        return "none"
    return "7f" if m == "buf 7f" else "status-only" if m == "buf 00" else "message" if m.startswith("buf 00") else m.split(" ")[0]
