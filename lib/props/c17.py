"""C17 - a response fits the transport buffer completely or becomes a one-byte error."""
from .. import cbor, core, gen
from .common import *

ID = "C17"
PROP_FILE = "C17"
RULE = ("every response kind with bodies from 0 bytes to > 4 KiB (a variable-length member is stretched so that the body size crosses every "
        "capacity of the harness menu at size-2..size+2), capacities 1, 2, 3 and transport sizes; buffer initially empty, partially filled and "
        "completely filled with a sentinel; the answer must be the complete message or exactly 7F and must not depend on the prior contents. "
        "Non-trivial = distinct (variant, value, capacity, prior)")
ASSUMPTIONS = ["capacities are const generics: the harness monomorphises a menu of 114 capacities; the theorem covers every N >= 1"]
TECHNIQUE = "Coq proof: fits-or-7F theorem for every response value, capacity N>=1 and prior buffer (one recorded exception class N=1 with empty map); differential run around every capacity of the menu"
LEVEL_TEXT = ("Theorem on the model of Response::serialize for every response value, every capacity N >= 1 and every prior buffer: the result is the "
              "complete message when the CBOR body fits the N-1 scratch bytes and exactly [0x7F] otherwise, never a truncated body, independent of the "
              "prior contents; the class (N = 1, body = empty map) where the property's reading differs is proved to be the only exception and is "
              "replayed as a known finding; differential run crossing every capacity boundary.")
feature_sets = default_feature_sets

CAPS = [1, 2, 3, 4, 5, 6, 7, 8, 9, 10, 16, 32, 40, 64, 65, 66, 80, 96, 100, 127, 128, 129, 200, 255, 256, 257, 258, 259, 260, 300, 400, 500, 512,
        600, 700, 800, 900, 1000, 1023, 1024, 1025, 1200, 1500, 2000, 2048, 3000, 3072, 4096, 5000, 7609]

WITNESSES = [
    {"id": "F3", "features": [], "case": "C17.witness.f3\tenc2\tClientPin\t1\t-\t{key_agreement=N;pin_token=N;retries=N;power_cycle_state=N;uv_retries=N}",
     "property_demands": "buf 00",
     "what": "capacity N=1 with a response whose CBOR body is the empty map: the complete message [00] fits, but the encoder needs one scratch byte for A0, fails and leaves [7F]"},
]


def cases(tier, rng, schema, feats):
    g = gen.Gen(schema, rng, tier)
    out = []
    n = 0

    def add(variant, cap, prior, v):
        nonlocal n
        out.append(f"C17.{n}\tenc2\t{variant}\t{cap}\t{prior}\t{v}")
        n += 1

    def priors(cap):
        ps = ["-"]
        if cap > 0:
            ps.append((b"\xee" * cap).hex())
            ps.append((b"\xee" * (cap // 2)).hex() or "-")
        return ps

    nvals = 6 if tier == "quick" else 30
    for variant, t in RESPONSES.items():
        for k in range(nvals):
            val = g.named_val(t, present=None if k else "none", focus=rng.chance(1, 2))
            v = gen.show(val)
            for cap in [1, 2, 3, 64, 256, 1024, 3072, 7609]:
                for p in (priors(cap) if cap <= 256 else ["-", (b"\xee" * cap).hex()]):
                    add(variant, cap, p, v)
    # stretch: GetAssertion auth_data / signature, GetInfo, LargeBlobs config (with large-blobs) across each capacity
    stretch = [("GetAssertion", "ctap2::get_assertion::Response", "auth_data", 676), ("MakeCredential", "ctap2::make_credential::Response", "auth_data", 676)]
    if "large-blobs" in feats:
        stretch.append(("LargeBlobs", "ctap2::large_blobs::Response", "config", 3008))
    for variant, t, member, mcap in stretch:
        base = g.named_val(t, present="none")
        for cap in CAPS:
            if tier == "quick" and cap > 700 and cap not in (1024, 3072):
                continue
            for delta in (-2, -1, 0, 1, 2):
                want = cap - 1 + delta  # body size we aim at
                fs = dict(base[1])
                # crude: set the member length so the total lands near `want`
                for mlen in {max(0, min(mcap, want - 12)), max(0, min(mcap, want - 20)), max(0, min(mcap, want - 30))}:
                    f2 = dict(fs)
                    if member == "config":
                        f2[member] = ("S", ("b", b"\x77" * mlen))
                    else:
                        f2[member] = ("b", b"\x77" * mlen)
                    add(variant, cap, "-" if delta else (b"\xee" * min(cap, 300)).hex(), gen.show(("R", list(f2.items()))))
    for variant in UNIT_RESPONSES:
        for cap in (1, 2, 3, 64):
            for p in priors(cap):
                add(variant, cap, p, "-")
    return out


def outcome(ans):
    a = core.norm(ans)
    if a == "buf 7f":
        return "7f"
    if a.startswith("buf 00"):
        return "message"
    return a


def judge(line, m, i):
    # observation: complete message or exactly 7F, decided by whether the body fits; the body bytes themselves are C02's business
    if i and i.startswith("buf "):
        b = bytes.fromhex(i[4:])
        if not (b == b"\x7f" or (b and b[0] == 0)):
            return "buffer holds neither a complete message (status 00 first) nor exactly 7F"
        if b and b[0] == 0 and len(b) > 1 and cbor.check_canonical(b[1:]) in ("truncated", "truncated head", "truncated string", "trailing bytes"):
            return "body after the status byte is not one complete CBOR item (truncated or trailing bytes)"
    if outcome(m) != outcome(i):
        return f"fit decision differs: model of the specification gives {outcome(m)}, implementation {outcome(i)}"
    if outcome(m) == "message" and m and i and len(m) != len(i):
        return "message length differs from the model's complete message"
    return None


def cross(results):
    """the result must not depend on what the buffer held before the call"""
    bad = []
    seen = {}
    for cid, (line, m, i) in results.items():
        p = line.split("\t")
        if p[1] != "enc2":
            continue
        key = (p[2], p[3], p[5])
        if key in seen and seen[key][1] != i:
            bad.append((line, seen[key][1], i, "result depends on the prior buffer contents (same response and capacity, different prior)"))
        seen.setdefault(key, (line, i))
    return bad


def nontrivial(line, m):
    return True


def classify(line, m):
    if not m:
        return "none"
    return "7f" if m == "buf 7f" else "status-only" if m == "buf 00" else "message" if m.startswith("buf 00") else m.split(" ")[0]
