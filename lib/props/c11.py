"""C11 - the command-byte table is total, exact and invertible."""
from .. import cbor, core

ID = "C11"
PROP_FILE = "C11"
EXHAUSTIVE = True
RULE = ("all 256 command bytes, each through Operation::try_from / u8::from / VendorOperation::try_from (op optab) and "
        "through ctap2::Request::deserialize with an empty, a valid, a malformed and seeded random trailing payloads; "
        "a case is non-trivial when its command byte/payload pair is distinct; classes = outcome kind")
ASSUMPTIONS = ["byte domain 0..255 is complete because the Rust argument is a u8"]


def feature_sets(tier):
    return [[], core.WIRE_FEATURES] if tier == "quick" else core.all_wire_feature_sets()


def cases(tier, rng, schema, feats):
    out = []
    valid = {
        0x01: cbor.enc(cbor.M([(1, b"\x11" * 32), (2, cbor.M([("id", "example.com")])), (3, cbor.M([("id", b"\x01")])), (4, [cbor.M([("alg", -7), ("type", "public-key")])])])),
        0x02: cbor.enc(cbor.M([(1, "example.com"), (2, b"\x22" * 32)])),
        0x06: cbor.enc(cbor.M([(1, 1), (2, 1)])),
        0x0A: cbor.enc(cbor.M([(1, 1)])),
        0x41: cbor.enc(cbor.M([(1, 1)])),
        0x0C: cbor.enc(cbor.M([(1, 10), (3, 0)])),
    }
    generic_valid = cbor.enc(cbor.M([(1, 1), (2, 1), (3, 0)]))
    for b in range(256):
        out.append(f"C11.tab.{b}\toptab\t{b:02x}")
        payloads = [b"", valid.get(b, generic_valid), b"\xff\xff", b"\xa1", rng.bytes(rng.below(40))]
        n = 2 if tier == "quick" else 8
        payloads += [rng.bytes(1 + rng.below(64)) for _ in range(n)]
        for k, p in enumerate(payloads):
            out.append(f"C11.dec.{b}.{k}\tdec2\t{bytes([b]).hex()}{p.hex()}")
    # payloads shaped like other framings a transport might hand over (ISO 7816 command APDUs in short and extended form with
    # consistent Lc / Le, CTAPHID init packets, a nested CTAP2 message): the command byte alone decides, whatever follows
    inner = [b"\x04", b"\x07", b"\x01" + valid[0x01], b"", b"\x06" + valid[0x06]]
    for b in range(256):
        k = 0
        for ins in (0x10, 0x00, 0x01, 0x02, 0x03, 0xA4):
            for p1 in (0x00, 0x80, 0x03):
                for body in (inner if b in (0x80, 0x00, 0x10, 0x04, 0xFF) or tier != "quick" else inner[:2]):
                    n = len(body)
                    frames = [bytes([ins, p1, 0x00]) + (bytes([n]) + body if n else b""),
                              bytes([ins, p1, 0x00]) + (bytes([n]) + body if n else b"") + b"\x00",
                              bytes([ins, p1, 0x00, 0x00]) + n.to_bytes(2, "big") + body,
                              bytes([ins, p1, 0x00, 0x00]) + n.to_bytes(2, "big") + body + b"\x00\x00"]
                    for fr in frames:
                        out.append(f"C11.apdu.{b}.{k}\tdec2\t{bytes([b]).hex()}{fr.hex()}")
                        k += 1
        # CTAPHID-looking: channel id, command, length, payload
        for body in inner[:3]:
            hid = b"\xff\xff\xff\xff" + bytes([0x90]) + len(body).to_bytes(2, "big") + body
            out.append(f"C11.hid.{b}.{k}\tdec2\t{bytes([b]).hex()}{hid.hex()}")
            k += 1
    # payloads that are one complete CBOR item nested 1..24 levels deep (arrays, maps, tags): the command byte alone decides
    for b in range(256):
        k = 0
        for depth in ((1, 4, 8, 9, 10, 16, 24) if (tier != "quick" and True) or b in (0x04, 0x07, 0x08, 0x0B, 0x09, 0x0D, 0x40, 0x55, 0x80, 0xFF, 0x42, 0x7F) else (9, 16)):
            for kind in ("array", "map", "tag"):
                unit = {"array": b"\x81", "map": b"\xa1\x01", "tag": b"\xc1"}[kind]
                out.append(f"C11.deep.{b}.{k}\tdec2\t{bytes([b]).hex()}{(unit * depth + bytes([0])).hex()}")
                k += 1
    # 0x41 decodes exactly like 0x0A: every sub-command, with and without parameters / PIN members
    if "ctap2::credential_management::Request" in schema:
        from .. import gen as _gen
        g = _gen.Gen(schema, rng, tier)
        t = "ctap2::credential_management::Request"
        sub = schema.get("ctap2::credential_management::Subcommand", {"variants": []})["variants"]
        k = 0
        for _, z in sub:
            for present in ("all", "none", None):
                tree = g.named_wire(t, present=present)
                tree = cbor.M([(kk, (z if kk == 1 else vv)) for kk, vv in tree.pairs])
                for b in (0x0A, 0x41):
                    out.append(f"C11.cm.{b}.{k}\tdec2\t{bytes([b]).hex()}{cbor.enc(tree).hex()}")
                k += 1
            for b in (0x0A, 0x41):
                out.append(f"C11.cm.{b}.{k}\tdec2\t{bytes([b]).hex()}{cbor.enc(cbor.M([(1, z)])).hex()}")
            k += 1
    # "whatever bytes follow": long trailing payloads, up to and beyond the maximum message size
    for b in (0x04, 0x07, 0x08, 0x0B, 0x42, 0x7F, 0x09, 0x0D, 0x40, 0x00, 0x03, 0x0E, 0xFF):
        for L in (7607, 7608, 7609, 7610, 12000):
            out.append(f"C11.long.{b}.{L}\tdec2\t{bytes([b]).hex()}{(bytes([L & 0xFF]) * L).hex()}")
    return out


def judge(line, m, i):
    return None if core.norm(m) == core.norm(i) else "model of the specification and implementation disagree"


def nontrivial(line, m):
    return True


def classify(line, m):
    if m is None:
        return "none"
    p = m.split(" ")
    if p[0] == "op":
        return "table:" + ("vendor" if p[1].startswith("Vendor") else "named" if p[1] != "none" else "unrecognised")
    if p[0] == "ok":
        return "ok:" + p[1].split("(")[0]
    return " ".join(p[:2])

TECHNIQUE = "Coq proof: exhaustive kernel computation over all 256 bytes lifted by forallb_forall, universal over payloads; regenerated match tables; differential run"
LEVEL_TEXT = ("Machine-checked theorems (coq/Properties/C11.v) over the complete byte domain and, for the decoder, over every trailing payload: "
              "recognised set, vendor range, round trip, injectivity both ways, payload-independence of parameter-less commands, 0x41 = 0x0A, "
              "InvalidCommand for unsupported/unassigned bytes. The byte tables and the Request::deserialize arm table are regenerated from "
              "/repo on every run and proved extensionally equal to the specification's on all 256 bytes and all feature sets; a differential run "
              "(all 256 bytes x several payloads) ties the hand-modelled glue to the compiled crate.")
