"""C14 - algorithm and attestation-format lists are filtered in order, never rejected."""
import itertools
from .. import cbor, core, gen
from .common import *

ID = "C14"
PROP_FILE = "C14"
RULE = ("all lists of length 0..6 (quick: 0..5) over the alphabet {ES256, EdDSA, unknown algorithm, known algorithm with unknown type} exhaustively, inside a "
        "MakeCredential request and stand-alone; random lists up to 64 entries; algorithm identifiers across the 32-bit signed range; type strings up to the "
        "32-byte capacity; all lists of length 0..5 (quick: 0..4) over {packed, none, tpm, Packed, NONE (case variants are other formats)} as attestationFormatsPreference of MakeCredential "
        "and GetAssertion; GetInfo algorithms on the encode side. The answer must equal the model's and an independent Python filter. "
        "Non-trivial = distinct list")
ASSUMPTIONS = []
TECHNIQUE = "Coq proof: induction over lists of any length (result = first two selected entries in order; unknown flag = existsb unknown); regenerated constants; exhaustive small-alphabet differential run"
LEVEL_TEXT = ("Theorems by induction for lists of every length: the parameter visitor returns exactly firstn 2 of the entries whose type is public-key and whose "
              "algorithm is known, in order; the format visitor returns the first two known formats and the flag 'some unknown format'; neither fails because "
              "of unknown entries. KNOWN_ALGS / ES256 / EdDSA are regenerated from /repo. Differential run: all lists over a 4-letter alphabet up to length 6.")
feature_sets = default_feature_sets

ALPHA = [("es", -7, "public-key"), ("ed", -8, "public-key"), ("unk", -257, "public-key"), ("typ", -7, "private-key")]
FMTS = ["packed", "none", "tpm", "Packed", "NONE"]


def entry(alg, t):
    return cbor.M([("alg", alg), ("type", t)])


def mc(params, prefs=None):
    pairs = [(1, b"\x11" * 32), (2, cbor.M([("id", "example.com")])), (3, cbor.M([("id", b"\x01")])), (4, params)]
    if prefs is not None:
        pairs.append((11, prefs))
    return b"\x01" + cbor.enc(cbor.M(pairs))


def cases(tier, rng, schema, feats):
    out = []
    n = 0
    maxlen = 5 if tier == "quick" else 6
    for L in range(maxlen + 1):
        for combo in itertools.product(range(4), repeat=L):
            lst = [entry(ALPHA[c][1], ALPHA[c][2]) for c in combo]
            out.append(f"C14.alg.{n}\tdec2\t{mc(lst).hex()}")
            n += 1
            if L <= 3:
                out.append(f"C14.alg.{n}\tdecty\twebauthn::FilteredPublicKeyCredentialParameters\t{cbor.enc(lst).hex()}")
                n += 1
    for _ in range(60 if tier == "quick" else 600):
        L = rng.below(65)
        lst = []
        for _ in range(L):
            alg = rng.choice([-7, -8, -7, -8, -257, 0, 1, 2**31 - 1, -(2**31), rng.below(2**32) - 2**31])
            t = rng.choice(["public-key", "public-key", "public-key", "", "x" * 32, "public-ke", "public-key "])
            e = [("alg", alg), ("type", t)]
            lst.append(cbor.M(e if rng.chance(2, 3) else e[::-1]))
        out.append(f"C14.rnd.{n}\tdec2\t{mc(lst).hex()}")
        n += 1
    # every COSE algorithm identifier in the registered neighbourhood, alone and among the known ones
    for alg in list(range(-70, 8)) + [-257, -258, -259, -65535, 256]:
        for lst in ([entry(alg, "public-key")], [entry(alg, "public-key"), entry(-7, "public-key")],
                    [entry(-8, "public-key"), entry(alg, "public-key"), entry(-7, "public-key")]):
            out.append(f"C14.algid.{n}\tdec2\t{mc(lst).hex()}")
            n += 1
    # long lists: hundreds of unsupported entries before / between / after the supported ones (counters, early exits)
    for count in (200, 255, 256, 257, 300):
        for lst in ([entry(-257, "public-key")] * count, [entry(-7, "public-key")] + [entry(-257, "public-key")] * count + [entry(-8, "public-key")]):
            out.append(f"C14.long.{n}\tdec2\t{mc(lst).hex()}")
            n += 1
        prefs = ["tpm"] * count
        out.append(f"C14.long.{n}\tdec2\t{mc([entry(-7, 'public-key')], prefs).hex()}")
        n += 1
        out.append(f"C14.long.{n}\tdec2\t{mc([entry(-7, 'public-key')], ['packed'] + prefs + ['none']).hex()}")
        n += 1
    fl = 4 if tier == "quick" else 5
    for L in range(fl + 1):
        for combo in itertools.product(range(len(FMTS)), repeat=L):
            prefs = [FMTS[c] for c in combo]
            out.append(f"C14.fmt.{n}\tdec2\t{mc([entry(-7, 'public-key')], prefs).hex()}")
            n += 1
            if L <= 3:
                ga = b"\x02" + cbor.enc(cbor.M([(1, "example.com"), (2, b"\x22" * 32), (9, prefs)]))
                out.append(f"C14.fmt.{n}\tdec2\t{ga.hex()}")
                n += 1
    # entries carrying an extra (unknown) member before, between and after `alg` / `type`, at every position of the list and
    # followed by further entries and members: the filter must read each entry to its end
    def entry_x(alg, typ, pos):
        pr = [("alg", alg), ("type", typ)]
        pr.insert(pos, ("hints", []) if pos != 1 else ("x", cbor.M([("y", 1)])))
        return cbor.M(pr)
    for pos in (0, 1, 2):
        for alg, typ in ((-7, "public-key"), (-257, "public-key"), (-8, "other")):
            ex = entry_x(alg, typ, pos)
            for lst in ([ex], [ex, entry(-8, "public-key")], [entry(-7, "public-key"), ex, entry(-8, "public-key")], [ex, ex, entry(-7, "public-key")],
                        [entry(-7, "public-key"), entry(-8, "public-key"), ex]):
                out.append(f"C14.extra.{n}\tdec2\t{mc(lst).hex()}")
                n += 1
                out.append(f"C14.extra.{n}\tdec2\t{mc(lst, ['packed']).hex()}")
                n += 1
                out.append(f"C14.extra.{n}\tdecty\twebauthn::FilteredPublicKeyCredentialParameters\t{cbor.enc(lst).hex()}")
                n += 1
    # near-spellings of the known formats (padding, terminators, whitespace, byte-order mark, other case, truncation, repetition):
    # each is an UNKNOWN format; alone, before and after the real ones
    near = []
    for base in ("packed", "none"):
        near += [base + "\x00", base + "\x00\x00", "\x00" + base, base + " ", " " + base, base + "\n", "\t" + base, "\ufeff" + base,
                 base + "\u200b", base.upper(), base.capitalize(), base[:-1], base + base, base + ".", base + "-v2"]
    for base in ("packed", "none"):
        # every single-character substitution, including the first and the LAST character
        for j in range(len(base)):
            for ch in ("a", "b", "e", "d", "z", "P", "0"):
                if ch != base[j]:
                    near.append(base[:j] + ch + base[j + 1:])
    for x in near:
        for prefs in ([x], [x, "packed", "none"], ["packed", x, "none"], ["none", "packed", x], [x, x, "packed"]):
            out.append(f"C14.fmt.{n}\tdec2\t{mc([entry(-7, 'public-key')], prefs).hex()}")
            n += 1
    # LONG lists: the two result slots filled first (same entry twice, or two different ones), then a run of dropped entries, then a
    # known entry at a position on a bit-width boundary (7, 8, 15, 16, 31, 32, 63, 64, 65, 127, 128, 255, 256): position counters,
    # bitmaps and shifts indexed by the wire position only misbehave there
    kn_a = {"p": entry(-7, "public-key"), "q": entry(-8, "public-key"), "u": entry(-257, "public-key")}
    kn_f = {"p": "packed", "q": "none", "u": "tpm"}
    for pos in (7, 8, 15, 16, 31, 32, 63, 64, 65, 127, 128, 255, 256):
        for head in ("pp", "pq", "qq", "qp", "p", ""):
            for last in ("p", "q"):
                shape = head + "u" * (pos - len(head)) + last
                out.append(f"C14.long.{n}\tdec2\t{mc([kn_a[c] for c in shape]).hex()}")
                n += 1
                out.append(f"C14.long.{n}\tdec2\t{mc([kn_a['p']], [kn_f[c] for c in shape]).hex()}")
                n += 1
                out.append(f"C14.long.{n}\tdec2\t02{cbor.enc(cbor.M([(1, 'example.com'), (2, bytes(32)), (9, [kn_f[c] for c in shape])])).hex()}")
                n += 1
    # encode side: GetInfo algorithms
    for algs in ([], [-7], [-8], [-7, -8], [-8, -7]):
        v = "{aaguid=b" + "00" * 16 + ";versions=[e:Fido2_0];algorithms=S([" + ",".join("{alg=i-%x}" % -a for a in algs) + "])}"
        out.append(f"C14.enc.{n}\tencty\tctap2::get_info::Response\t{v}")
        n += 1
    return out


def pyfilter(tree):
    out = []
    for e in tree:
        d = {(k.b.decode() if isinstance(k, cbor.T) else k): v for k, v in e.pairs}
        t = d.get("type")
        t = t.b.decode() if isinstance(t, cbor.T) else t
        if t == "public-key" and d.get("alg") in (-7, -8) and len(out) < 2:
            out.append(d["alg"])
    return out


def judge(line, m, i):
    if core.norm(m) != core.norm(i):
        return "model of the specification and implementation disagree"
    p = line.split("\t")
    tag = line.split(".")[1]
    if tag in ("alg", "rnd") and p[1] == "dec2" and i:
        tree, _ = cbor.dec(bytes.fromhex(p[2]), 1)
        params = dict(tree.pairs)[4]
        want = "pub_key_cred_params=[" + ",".join("{alg=i-%x}" % -a for a in pyfilter(params)) + "]"
        if not i.startswith("ok") or want not in i:
            return f"filtered list should be {want}"
    if tag == "fmt" and i:
        tree, _ = cbor.dec(bytes.fromhex(p[2]), 1)
        d = dict(tree.pairs)
        prefs = d[11] if 11 in d else d.get(9, [])
        prefs = [x.b.decode() if isinstance(x, cbor.T) else x for x in prefs]
        known = [{"packed": "e:Packed", "none": "e:None"}[x] for x in prefs if x in ("packed", "none")][:2]
        unknown = any(x not in ("packed", "none") for x in prefs)
        want = "attestation_formats_preference=S({known_formats=[" + ",".join(known) + "];unknown=" + ("T" if unknown else "F") + "})"
        if not i.startswith("ok") or want not in i:
            return f"format preference should be {want}"
    return None


def nontrivial(line, m):
    return True


def classify(line, m):
    return line.split(".")[1] + ":" + (m or "none").split(" ")[0]
