"""C08 - CTAP1/U2F APDU parsing is total and follows the U2F raw message format."""
from .. import cbor, core
from .common import *

ID = "C08"
PROP_FILE = "C08"
RULE = ("the header space (quick: all 256 classes x 256 instructions with P1 in {0,3,7,8,9,255}; thorough: all 256^3) crossed with data lengths on "
        "every decision boundary (0, 1, 63, 64, 65, 66, 65+k and 65+k+-1 for k in {0,1,254,255}) and the four length encodings (short/extended, "
        "with/without Le), random data, key-handle length byte agreeing and disagreeing with the data; every APDU through both entry points "
        "(TryFrom<CommandView> and TryFrom<&Command<S>> for 24 buffer capacities S, including S equal to the data length). The answer must equal the model's and an "
        "independent Python transcription of the decision table. Non-trivial = distinct APDU")
ASSUMPTIONS = ["APDUs that iso7816 0.1.4 itself rejects (class 0xFF, malformed Lc/Le) never reach the conversion; their framing error must agree with the model of parse_lengths"]
TECHNIQUE = "Coq proof: conversion equals the U2F decision table for every APDU view, never panics; ISO 7816 framing round trip in all seven encodings (case 1, 2S, 3S, 4S, 2E, 3E, 4E) for every header, data field and Le, hence the decision table holds from raw bytes; control-byte table regenerated; differential run over headers x boundary lengths x 4 encodings with an independent oracle"
LEVEL_TEXT = ("Theorems: for every command view (any class, instruction, P1, data of any length) the model of TryFrom<CommandView> equals the decision table of the U2F raw message format, class "
              "check first, never reaching a panic site; field lengths of accepted requests; c08_frame_short / c08_frame_extended (coq/Proofs/FrameP.v): parsing the frame built from any header, any "
              "data field (<= 255 / <= 65535 bytes) and any Le in each ISO 7816-4 encoding returns exactly that header, data and Le; c08_raw_apdu_decision composes the two. The control-byte table is "
              "regenerated from /repo (all 256 P1 values). iso7816 0.1.4 parse_lengths is modelled (third-party) and tied by the differential run over all four length encodings.")


def feature_sets(tier):
    return [[]] if tier == "quick" else [[], core.WIRE_FEATURES]


def apdu(cla, ins, p1, p2, data, enc):
    h = bytes([cla, ins, p1, p2])
    n = len(data)
    if enc == "short":
        return h + (bytes([n]) + data if n else b"")
    if enc == "shortle":
        return h + (bytes([n]) + data if n else b"") + b"\x00"
    if enc == "ext":
        return h + (b"\x00" + n.to_bytes(2, "big") + data if n else b"")
    return h + (b"\x00" + n.to_bytes(2, "big") + data + b"\x00\x00" if n else b"\x00\x00\x00")


def cases(tier, rng, schema, feats):
    out = []
    n = 0

    def add(tag, b):
        nonlocal n
        out.append(f"C08.{tag}.{n}\tapdu\t{b.hex()}")
        n += 1

    p1s = [0, 3, 7, 8, 9, 255] if tier == "quick" else list(range(256))
    for cla in range(256):
        for ins in range(256):
            for p1 in (p1s if (tier != "quick" or cla in (0, 1, 0x80, 0xFF)) else [0, 3]):
                if tier != "quick" and cla not in (0, 1, 0x80, 0xFE, 0xFF) and p1 not in (0, 3, 7, 8):
                    continue
                add("hdr", bytes([cla, ins, p1, 0]))
    lens = [0, 1, 63, 64, 65, 66, 67, 318, 319, 320, 321]
    for ins in (1, 2, 3, 0x20, 0xa4, 4, 0):
        for p1 in (0, 3, 7, 8, 9):
            for L in lens:
                for khl in ([None] if L < 65 else [L - 65, L - 64, L - 66, 0, 1, 254, 255]):
                    data = bytearray(rng.bytes(L))
                    if khl is not None and 0 <= khl <= 255:
                        data[64] = khl
                    for enc in ("short", "shortle", "ext", "extle"):
                        if enc.startswith("short") and L > 255:
                            continue
                        add("len", apdu(0, ins, p1, 0, bytes(data), enc))
                        if p1 == 3 and ins in (1, 2):
                            add("len", apdu(1, ins, p1, 0, bytes(data), enc))
    # every admissible Authenticate length 65..321 with the matching key-handle length byte, in every encoding that can carry it
    # (the largest short-form data field, 255 bytes, and its neighbours included), and one byte off
    for L in range(65, 323):
        for khl in (L - 65, L - 66):
            if not 0 <= khl <= 255:
                continue
            data = bytearray(rng.bytes(L))
            data[64] = khl
            for enc in ("short", "shortle", "ext", "extle"):
                if enc.startswith("short") and L > 255:
                    continue
                add("auth", apdu(0, 2, rng.choice([3, 7, 8]), 0, bytes(data), enc))
    # a well-formed Authenticate body followed by 1..4 surplus bytes (zeros and random), in every encoding: the length must match exactly
    for k in (0, 1, 5, 64, 190, 250, 255):
        for surplus in (1, 2, 3, 4):
            for tailb in (b"\x00" * surplus, rng.bytes(surplus)):
                data = rng.bytes(64) + bytes([k]) + rng.bytes(k) + tailb
                for enc in ("short", "shortle", "ext", "extle"):
                    if enc.startswith("short") and len(data) > 255:
                        continue
                    for p1 in (3, 7, 8):
                        add("surplus", apdu(0, 2, p1, 0, data, enc))
    # U2F_VERSION (and the other instructions) with EVERY short Le and a range of extended Le values, with and without data: the
    # answer does not depend on the expected response length
    for ins in (3, 1, 2, 0x10):
        for le in range(256):
            add("le", bytes([0, ins, 0, 0, le]))                                 # case 2S
            add("le", bytes([0, ins, 0, 0, 2, 0xAA, 0xBB, le]))                  # case 4S
        for le in (0, 1, 2, 5, 6, 7, 255, 256, 257, 65535):
            add("le", bytes([0, ins, 0, 0, 0]) + le.to_bytes(2, "big"))          # case 2E
            add("le", bytes([0, ins, 0, 0, 0, 0, 2, 0xAA, 0xBB]) + le.to_bytes(2, "big"))   # case 4E
    # the commands an NFC / CCID reader really sends to a FIDO token besides the three U2F instructions: SELECT by name with the FIDO
    # AID (full, truncated, extended by one byte, the RID alone), the Yubico OTP / PIV / OpenPGP / NDEF AIDs, GET RESPONSE, GET DATA,
    # NFCCTAP_MSG (0x10) and the vendor instructions, with every P1 / P2 a reader uses and every Lc / Le encoding: none is a U2F
    # instruction, whatever its data
    fido = bytes.fromhex("a0000006472f0001")
    aids = [fido, fido[:7], fido[:5], fido + b"\x00", fido[:-1] + b"\x02", bytes.fromhex("a0000005272001"), bytes.fromhex("a000000308"),
            bytes.fromhex("d27600012401"), bytes.fromhex("d2760000850101"), b"U2F_V2", b""]
    for ins in (0xA4, 0xC0, 0xCA, 0xCB, 0xB0, 0x10, 0x11, 0x12, 0x40, 0xC1, 0xC3, 0x01, 0x02, 0x03):
        for p1 in (0x00, 0x04, 0x03, 0x80):
            for p2 in (0x00, 0x0C):
                for aid in aids:
                    for enc in ("short", "shortle", "ext", "extle"):
                        for cla in (0x00, 0x80):
                            add("iso", apdu(cla, ins, p1, p2, aid, enc))
    # malformed framings
    for k in range(0, 12):
        add("frame", rng.bytes(k))
    for _ in range(200 if tier == "quick" else 5000):
        b = bytearray(rng.bytes(4 + rng.below(80)))
        b[0] = rng.choice([0, 0, 0, 1, 0xff])
        b[1] = rng.choice([1, 2, 3, rng.below(256)])
        add("rnd", bytes(b))
    return out


NAMED = {0x20, 0x24, 0x2C, 0x47, 0x87, 0xA4, 0xC0, 0xCB, 0xDB, 0xB0, 0xD0}


def oracle(cla, ins, p1, data):
    if cla != 0:
        return "err ClassNotSupported"
    if ins == 3:
        return "ok version"
    if ins == 1:
        if len(data) == 64:
            return f"ok register {data[:32].hex()} {data[32:].hex()}"
        return "err IncorrectDataParameter"
    if ins == 2:
        cb = {3: "EnforceUserPresenceAndSign", 7: "CheckOnly", 8: "DontEnforceUserPresenceAndSign"}.get(p1)
        if cb is None or len(data) < 65 or len(data) != 65 + data[64]:
            return "err IncorrectDataParameter"
        return f"ok authenticate {cb} {data[:32].hex()} {data[32:64].hex()} {data[65:].hex()}"
    return "err InstructionNotSupportedOrInvalid"


def parse(b):
    """independent transcription of ISO 7816-4 command APDU decoding (cases 1, 2S, 3S, 4S, 2E, 3E, 4E)"""
    if len(b) < 4 or b[0] == 0xFF:
        return None
    body = b[4:]
    l = len(body)
    if l == 0:
        return b""
    b1 = body[0]
    if l == 1:
        return b""
    if b1 != 0 and l == 1 + b1:
        return body[1:]
    if b1 != 0 and l == 2 + b1:
        return body[1:-1]
    if b1 != 0 or l < 3:
        return None
    if l == 3:
        return b""
    lc = int.from_bytes(body[1:3], "big")
    if l == 3 + lc:
        return body[3:]
    if l == 5 + lc:
        return body[3:-2]
    return None


def judge(line, m, i):
    if core.norm(m) != core.norm(i):
        return "model of the specification and implementation disagree"
    b = bytes.fromhex(line.split("\t")[2])
    data = parse(b)
    if data is None:
        if not (i or "").startswith("apduerr"):
            return "a byte string that is not a command APDU was converted"
        return None
    want = oracle(b[0], b[1], b[2], data)
    if i != want:
        return f"U2F decision table calls for '{want[:60]}'"
    return None


def nontrivial(line, m):
    return True


def classify(line, m):
    return line.split(".")[1] + ":" + " ".join((m or "none").split(" ")[:2])
