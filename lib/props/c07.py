"""C07 - authenticator data is laid out byte-for-byte as WebAuthn specifies."""
from .. import cbor, core, gen
from .common import *

ID = "C07"
PROP_FILE = "C07"
RULE = ("all 16 flag combinations; counters 0, 1, 0xFF, 0x100, 0x01020304, 0xFFFFFFFF and random; credential-id lengths 0..700 (stride 1 around the "
        "676-byte frontier for several public-key lengths, coarser elsewhere) and 65535/65536/70000; aaguid lengths 0, 16, 17; MakeCredential and "
        "GetAssertion flavours; every subset of extension outputs. The answer must equal the model's and, independently, the layout computed by "
        "this module from the WebAuthn text. Non-trivial = distinct argument tuple")
ASSUMPTIONS = ["rpIdHash is a &[u8; 32] by type, so only 32-byte hashes exist"]
TECHNIQUE = "Coq proof: layout theorem for all inputs (exact concatenation or Error::Other, no third outcome) + regenerated flag bits and capacity; differential run across the capacity frontier with an independent layout oracle"
LEVEL_TEXT = ("Theorem on the model for every hash, flag byte, counter, attested data of any lengths and extension value: the result is exactly "
              "rpIdHash || flags || counter(4 BE) || [aaguid || len(2 BE) || id || key] || [CBOR ext] iff it fits 676 bytes and the id is <= 65535 bytes, "
              "else Error::Other - never a panic, never a prefix. Flag bits and capacity are regenerated from /repo and kernel-checked. Differential run "
              "crossing the capacity frontier, with an independent Python layout oracle.")
feature_sets = default_feature_sets

FLAG_BITS = [0x01, 0x04, 0x40, 0x80]


def cases(tier, rng, schema, feats):
    g = gen.Gen(schema, rng, tier)
    out = []
    n = 0

    def add(flavour, rp, flags, count, acd, ext):
        nonlocal n
        out.append(f"C07.{n}\tauthdata\t{flavour}\t{rp.hex()}\t{flags:x}\t{count:x}\t{acd}\t{ext}")
        n += 1

    rp = bytes(range(32))
    counters = [0, 1, 0xFF, 0x100, 0x01020304, 0xFFFFFFFF]
    for m in range(16):
        flags = sum(b for i, b in enumerate(FLAG_BITS) if m >> i & 1)
        for c in counters + [rng.below(2**32)]:
            add("mc", rp, flags, c, "-", "-")
            add("ga", rng.bytes(32), flags, c, "-", "-")
    # every flag combination against presence / absence of the optional parts (the flags byte is written as
    # given: it must not be "corrected" to match the data that follows)
    for m in range(16):
        flags = sum(b for i, b in enumerate(FLAG_BITS) if m >> i & 1)
        for acd in ("-", "00" * 16 + ":0102:a0"):
            for ext in ("-", "{}"):
                add("mc", rp, flags, 5, acd, "{cred_protect=N;hmac_secret=N;large_blob_key=N}" if ext != "-" else "-")
                add("ga", rp, flags, 5, "-", "{hmac_secret=N}" if ext != "-" else "-")
    ext_t = {"mc": "ctap2::make_credential::Extensions", "ga": "ctap2::get_assertion::ExtensionsOutput"}
    for flavour, t in ext_t.items():
        for sub in gen.subsets_or_sample(g.optional_labels(t), rng, 64):
            for _ in range(2):
                add(flavour, rp, 0x81, rng.below(2**32), "-", gen.show(g.named_val(t, present=sub, focus=True)))
    # attested credential data across the capacity frontier: 37 + aaguid + 2 + id + key (+ ext) vs 676
    for keylen in (0, 1, 77, 100, 255, 256, 257, 258, 300, 512, 600):
        for aag in (16, 0, 17):
            frontier = 676 - 37 - aag - 2 - keylen
            ids = set(range(max(0, frontier - 3), frontier + 4)) | {0, 1, 2, 255, 256, 300, 544, 545, 700}
            if tier != "quick":
                ids |= set(range(0, 701, 7))
            for idl in sorted(i for i in ids if i >= 0):
                acd = "aa" * aag + ":" + rng.bytes(idl).hex() + ":" + "a5" * keylen
                add("mc", rp, 0x41, 7, acd, "-")
    # the aaguid is a slice too: every part across the frontier on its own and in pairs (lengths well beyond the capacity
    # included - a size computed by subtraction must not underflow)
    for aag in (0, 1, 15, 16, 17, 100, 300, 544, 600, 630, 636, 637, 638, 639, 640, 676, 677, 700, 1000, 4000):
        for idl, keylen in ((0, 0), (1, 0), (0, 1), (16, 77), (637 - aag if aag <= 637 else 0, 0), (0, 638 - aag if aag <= 638 else 0), (300, 300)):
            acd = "bb" * aag + ":" + rng.bytes(max(0, idl)).hex() + ":" + "a5" * max(0, keylen)
            add("mc", rp, 0x41, 7, acd, "-")
            add("mc", rp, 0xC1, 7, acd, gen.show(g.named_val("ctap2::make_credential::Extensions", present="all")))
    # parts of 2^16 bytes and more (a length handled in 16 bits would wrap): every part, alone and together
    for aag, idl, keylen in ((16, 64, 65536), (16, 64, 65536 + 77), (16, 0, 131072), (65536 + 16, 0, 0), (65536, 64, 77), (16, 65535, 65536 + 1), (0, 0, 65536 * 3 + 5)):
        acd = "bb" * aag + ":" + "cc" * idl + ":" + "a5" * keylen
        add("mc", rp, 0x41, 7, acd, "-")
        add("mc", rp, 0xC1, 7, acd, gen.show(g.named_val("ctap2::make_credential::Extensions", present="all")))
    # get_assertion flavour with Some(NoAttestedCredentialData): contributes no bytes
    for flags in (0x01, 0x41, 0x81, 0xC5):
        add("ga", rp, flags, 9, "::", "-")
    for idl in (65535, 65536, 70000):
        add("mc", rp, 0x41, 7, f"{'00' * 16}:{'11' * idl}:a0", "-")
    # with an extension map after the attested data
    for idl in range(590, 625):
        add("mc", rp, 0xC1, 1, f"{'00' * 16}:{'22' * idl}:a0", gen.show(g.named_val("ctap2::make_credential::Extensions", present="all")))
    return out


def oracle(parts):
    flavour, rp, flags, count, acd, ext = parts[2:8]
    b = bytes.fromhex(rp) + bytes([int(flags, 16)]) + int(count, 16).to_bytes(4, "big")
    if acd != "-" and flavour == "mc":
        a, i, k = [bytes.fromhex(x) for x in acd.split(":")]
        if len(i) > 65535:
            return None
        b += a + len(i).to_bytes(2, "big") + i + k
    if ext != "-":
        b += b"\xa0"   # an extension value with no member set is the empty map
    return b


def judge(line, m, i):
    if core.norm(m) != core.norm(i):
        return "model of the specification and implementation disagree"
    parts = line.split("\t")
    if parts[7] in ("-", "{cred_protect=N;hmac_secret=N;large_blob_key=N}", "{hmac_secret=N}"):  # layout fully determined here
        want = oracle(parts)
        if want is None or len(want) > 676:
            if not (i or "").startswith("err"):
                return "over-capacity authenticator data was not rejected"
        elif i != "ok " + want.hex():
            return "layout differs from rpIdHash||flags||signCount||[aaguid||len||id||key]"
    return None


def nontrivial(line, m):
    return True


def classify(line, m):
    return line.split("\t")[2] + ":" + (m or "none").split(" ")[0]
