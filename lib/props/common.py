"""Shared pieces of the property modules."""
from .. import cbor, core, gen

# types the harness can build from a value and encode (harness with_type!)
ENCTY_TYPES = [
    "webauthn::PublicKeyCredentialRpEntity", "webauthn::PublicKeyCredentialUserEntity",
    "webauthn::PublicKeyCredentialParameters", "webauthn::FilteredPublicKeyCredentialParameters",
    "webauthn::PublicKeyCredentialDescriptor", "ctap2::get_assertion::ExtensionsOutput",
    "ctap2::make_credential::Extensions", "ctap2::client_pin::Response", "ctap2::large_blobs::Response",
    "ctap2::get_info::Response", "ctap2::get_info::CtapOptions", "ctap2::get_info::Certifications",
    "ctap2::get_info::Version", "ctap2::get_info::Extension", "ctap2::get_info::Transport",
    "ctap2::AttestationStatementFormat", "ctap2::credential_management::CredentialProtectionPolicy",
    "ext::EcdhEsHkdf256PublicKey",
]
# types that can only be obtained by decoding (then re-encoded): harness with_de_type!
RESER_ONLY_TYPES = [
    "webauthn::PublicKeyCredentialDescriptorRef", "ctap2::AuthenticatorOptions",
    "ctap2::get_assertion::ExtensionsInput", "ctap2::get_assertion::HmacSecretInput",
    "ctap2::get_assertion::UnsignedExtensionOutputs", "ctap2::client_pin::Request",
    "ctap2::client_pin::PinV1Subcommand", "ctap2::credential_management::Request",
    "ctap2::credential_management::Subcommand", "ctap2::credential_management::SubcommandParameters",
    "ctap2::large_blobs::Request",
]
DECTY_ONLY_TYPES = ["ctap2::make_credential::Request", "ctap2::get_assertion::Request",
                    "ctap2::AttestationFormatsPreference", "webauthn::Icon"]

RESPONSES = {
    "GetInfo": "ctap2::get_info::Response",
    "MakeCredential": "ctap2::make_credential::Response",
    "GetAssertion": "ctap2::get_assertion::Response",
    "GetNextAssertion": "ctap2::get_assertion::Response",
    "ClientPin": "ctap2::client_pin::Response",
    "CredentialManagement": "ctap2::credential_management::Response",
    "LargeBlobs": "ctap2::large_blobs::Response",
}
UNIT_RESPONSES = ["Reset", "Selection", "Vendor"]

REQUESTS = {
    0x01: ("MakeCredential", "ctap2::make_credential::Request"),
    0x02: ("GetAssertion", "ctap2::get_assertion::Request"),
    0x06: ("ClientPin", "ctap2::client_pin::Request"),
    0x0A: ("CredentialManagement", "ctap2::credential_management::Request"),
    0x41: ("CredentialManagement", "ctap2::credential_management::Request"),
    0x0C: ("LargeBlobs", "ctap2::large_blobs::Request"),
}


def eq_judge(line, m, i):
    return None if core.norm(m) == core.norm(i) else "model of the specification and implementation disagree"


def default_feature_sets(tier):
    # all eight combinations of the three wire features in both tiers: a member gated by the wrong feature shows where two
    # features differ, a condition combining two features only where exactly those two are on (both kinds were seeded)
    return core.all_wire_feature_sets()


def _refs(ty):
    if ty[0] == "named":
        return [ty[1]]
    if ty[0] in ("opt", "vec"):
        return _refs(ty[1])
    return []


def closure(schema, roots):
    """names reachable from the roots through member types (the specification tables' graph)"""
    seen, todo = [], list(roots)
    while todo:
        n = todo.pop(0)
        if n in seen or n not in schema:
            continue
        seen.append(n)
        d = schema[n]
        if d["kind"] == "struct":
            for f in d["fields"]:
                todo += _refs(f["ty"])
        elif d["kind"] == "untagged":
            for _, t in d["variants"]:
                todo += _refs(t)
        elif d["kind"] == "custom" and n == "webauthn::FilteredPublicKeyCredentialParameters":
            todo.append("webauthn::PublicKeyCredentialParameters")
    return seen


def request_types(schema):
    return closure(schema, [t for _, t in REQUESTS.values()])
