"""C15 - encoding then decoding (and decoding then encoding) is the identity."""
from .. import cbor, core, gen
from .common import *

ID = "C15"
PROP_FILE = "C15"
RULE = ("every bidirectional type: value -> bytes -> value (op rtv: values built through the public API from every subset of optional members - all "
        "subsets when 2^k <= limit, else none/singletons/pairs/full/random - with boundary and random member values) must give the value back, and "
        "canonical bytes -> value -> bytes (op reser: reference encodings produced from the specification tables, including the types that can only be "
        "obtained by decoding) must reproduce the bytes; the relying-party icon is the stated exception. Non-trivial = distinct (type, value)")
ASSUMPTIONS = ["KnownPublicKeyCredentialParameters.alg is a public field: the round trip assumes the type's invariant alg in KNOWN_ALGS",
               "the relying-party icon is deliberately not re-emitted (stated exception of the property)"]
TECHNIQUE = "Coq proof: decode(encode v ++ rest) = (v, rest) for every well-typed value of every type in every well-formed declaration environment, by induction over the codec (records with any subset of optional members, sequences, options, enumerations, the cosey key, the filtered parameter list); well-formedness of the regenerated declarations is a kernel obligation; differential round trips both ways, with the share of generated values inside the theorem's domain measured"
LEVEL_TEXT = ("Theorems (coq/Proofs/RoundTripP.v, Properties/C15.v): ser_dec_roundtrip / c15_decode_encode - for every environment e with env_rt e = true (boolean over the declarations: member keys "
              "and labels pairwise distinct and in range, every text key resolves to its own member, string/number enumeration tables mutually inverse on what they emit), every type t and every value v "
              "with wt e t v = true (capacities, integer ranges, UTF-8, any subset of optional members), decode e t (encode e t v ++ rest) = Ok (v, rest): unbounded sizes, nesting and member subsets. "
              "Corollaries: bytes -> value -> bytes on canonical bytes reproduces them (c15_encode_decode); encodings are injective and prefix-free (c15_encode_injective: no member lost or renumbered in "
              "one direction only). env_rt is evaluated by the kernel on the specification tables and on the declarations regenerated from /repo for all 32 feature sets on every run; the set of "
              "bidirectional types and both roles of their declarations equal the specification. Outside the theorem's domain (reported in the evidence as outside-theorem-domain and covered by the "
              "differential run only): Option<()> placeholders set to Some, decode-only and encode-only types. Differential run of value->bytes->value and bytes->value->bytes on the implementation "
              "against the extracted model; the driver evaluates wt on every generated value.")
feature_sets = default_feature_sets


def cases(tier, rng, schema, feats):
    g = gen.Gen(schema, rng, tier)
    out = []
    n = 0
    limit = 64 if tier == "quick" else 1024
    for t in ENCTY_TYPES:
        if t not in schema:
            continue
        d = schema[t]
        if d["kind"] == "struct":
            for sub in gen.subsets_or_sample(g.optional_labels(t), rng, limit):
                out.append(f"C15.rtv.{n}\trtv\t{t}\t{gen.show(g.named_val(t, present=sub, focus=rng.chance(1, 2)))}")
                n += 1
        elif d["kind"] in ("strenum", "repr"):
            for v, _ in d["variants"]:
                out.append(f"C15.rtv.{n}\trtv\t{t}\te:{v}")
                n += 1
        else:
            for _ in range(10):
                out.append(f"C15.rtv.{n}\trtv\t{t}\t{gen.show(g.named_val(t))}")
                n += 1
    # entity names that fill their capacity exactly (and one / two bytes less), ending in a character of every UTF-8
    # lead-byte class: these go through the truncation helper although nothing has to be cut
    for k, c in enumerate(gen.utf8_reps()):
        w = len(c.encode())
        for total in (64, 63, 62):
            txt = ("n" * (total - w) + c).encode().hex()
            if k % 2 == 0:
                out.append(f"C15.rtv.{n}\trtv\twebauthn::PublicKeyCredentialUserEntity\t{{display_name=S(s{txt});icon=N;id=b01;name=S(s{txt})}}")
            else:
                out.append(f"C15.rtv.{n}\trtv\twebauthn::PublicKeyCredentialRpEntity\t{{icon=N;id=s6578616d706c652e636f6d;name=S(s{txt})}}")
            n += 1
    # every text member of the entities starting with each prefix a helper might single out (URL schemes, markup, quoting, literals)
    for pre in gen.TEXT_PREFIXES:
        txt = (pre + "abc").encode().hex()
        out.append(f"C15.rtv.{n}\trtv\twebauthn::PublicKeyCredentialUserEntity\t{{display_name=S(s{txt});icon=S(s{txt});id=b01;name=S(s{txt})}}")
        n += 1
        out.append(f"C15.rtv.{n}\trtv\twebauthn::PublicKeyCredentialRpEntity\t{{icon=N;id=s{txt};name=S(s{txt})}}")
        n += 1
    # every integer member of the bidirectional response types at each well-known default value (a member 'not worth sending' when it
    # equals the default would be lost in the round trip)
    for t in ENCTY_TYPES:
        d = schema.get(t)
        if not d or d["kind"] != "struct" or not (d["de"] and d["ser"]):
            continue
        for f in d["fields"]:
            inner = f["ty"][1] if f["ty"][0] == "opt" else f["ty"]
            if inner[0] in ("u8", "u16", "u32", "u64", "usize"):
                mx = {"u8": 255, "u16": 65535}.get(inner[0], 2**32 - 1)
                for dv in gen.INT_DEFAULTS:
                    if dv <= mx:
                        base = g.named_val(t, present=frozenset([f["label"]]))
                        fs = [(l, (("S", ("i", dv)) if f["ty"][0] == "opt" else ("i", dv)) if l == f["label"] else v) for l, v in base[1]]
                        out.append(f"C15.rtv.{n}\trtv\t{t}\t{gen.show(('R', fs))}")
                        n += 1
    # members the SOURCE declares that the specification does not know (none on the unchanged tree): bytes -> value -> bytes
    gnm = gen.Gen(schema, rng, tier, canonical=True)
    for sname, key, val in gen.novel_members(schema, feats):
        d = schema[sname]
        if d.get("de") and d.get("ser"):
            tree = gnm.named_wire(sname, present="all")
            if sname == "webauthn::PublicKeyCredentialRpEntity":
                tree = cbor.M([(k, v) for k, v in tree.pairs if k not in ("icon", "url")])
            pairs = [(k, v) for k, v in tree.pairs if k != key] + [(key, val)]
            pairs.sort(key=lambda kv: (len(cbor.enc(kv[0])), cbor.enc(kv[0])))
            out.append(f"C15.reser.{n}\treser\t{sname}\t{cbor.enc(cbor.M(pairs)).hex()}")
            n += 1
    # spellings the SOURCE's conversion tables mention that the specification does not know (none on the unchanged tree): judged by
    # the property alone - if the implementation decodes the text, it must encode the value back to the same text
    for t, sp in gen.novel_spellings(schema):
        if schema[t].get("de") and schema[t].get("ser"):
            out.append(f"C15.novel.{n}\treser\t{t}\t{cbor.enc(sp).hex()}")
            n += 1
    gc = gen.Gen(schema, rng, tier, canonical=True)
    for t in ENCTY_TYPES + RESER_ONLY_TYPES:
        if t not in schema:
            continue
        d = schema[t]
        if d["kind"] == "struct" and d["de"] and d["ser"]:
            for sub in gen.subsets_or_sample(gc.optional_wire_labels(t), rng, limit):
                tree = gc.named_wire(t, present=sub)
                if t == "webauthn::PublicKeyCredentialRpEntity":
                    tree = cbor.M([(k, v) for k, v in tree.pairs if k not in ("icon", "url")])
                # canonical reference bytes: no lossy triggers (names <= 64, icon <= 128)
                out.append(f"C15.reser.{n}\treser\t{t}\t{cbor.enc(tree).hex()}")
                n += 1
        elif d["kind"] in ("strenum",):
            for _, sp in d["variants"]:
                out.append(f"C15.reser.{n}\treser\t{t}\t{cbor.enc(sp).hex()}")
                n += 1
        elif d["kind"] == "repr":
            for _, z in d["variants"]:
                out.append(f"C15.reser.{n}\treser\t{t}\t{cbor.enc(z).hex()}")
                n += 1
    return out


def judge(line, m, i):
    if line.startswith("C15.novel."):
        p = line.split("\t")
        if i and i.startswith("ok ") and i[3:] != p[3]:
            return "encode(decode(b)) differs from the canonical bytes b (a spelling the specification does not list)"
        if core.norm(i) in ("panic", "missing", "hang"):
            return "round trip did not return"
        return None
    if (core.norm(m).startswith("ok") != core.norm(i).startswith("ok")):
        return "round trip succeeds on one side only (model of the specification vs implementation)"
    p = line.split("\t")
    if p[1] == "rtv" and i and i.startswith("ok "):
        got = i[3:].rsplit(" rest=", 1)[0]
        if got != p[3]:
            return "decode(encode(v)) differs from v"
    if p[1] == "reser" and i and i.startswith("ok "):
        if i[3:] != p[3]:
            return "encode(decode(b)) differs from the canonical bytes b"
    return None


def _has_long_text(tree):
    if isinstance(tree, cbor.T):
        return len(tree.b) > 64
    if isinstance(tree, cbor.M):
        return any(_has_long_text(v) for _, v in tree.pairs)
    if isinstance(tree, list):
        return any(_has_long_text(v) for v in tree)
    return False


def nontrivial(line, m):
    return bool(m) and m.startswith("ok")


def classify(line, m):
    c = line.split(".")[1] + ":" + (m or "none").split(" ")[0]
    if m and " wt=" in m:
        # whether the value lies in the domain of the round-trip theorem (wt evaluated by the extracted model)
        c += ":in-theorem-domain" if m.endswith("wt=1") else ":outside-theorem-domain"
    return c
