"""C09 - CTAP1/U2F responses are encoded in the U2F raw message layout."""
from .. import cbor, core, gen
from .common import *

ID = "C09"
PROP_FILE = "C09"
RULE = ("key-handle lengths 0..255, certificate lengths 0..1024 (edges and stride), signature lengths 0..72, counters at the big-endian boundaries, "
        "arbitrary header/presence bytes, buffers empty or pre-filled, capacities of the harness menu chosen around every part boundary of each tested "
        "response; register::Response::new with coordinates of 0..32 bytes, and for every register response whose key is 0x04||x||y (incl. "
        "certificates with DER-like headers declaring less / as much / more than they hold) the constructor must equal the struct literal. The answer (result and buffer) must equal the model's and an independent "
        "Python transcription of the layout. Non-trivial = distinct (response, capacity, prior)")
ASSUMPTIONS = ["iso7816::Data<S> capacities are const generics: the harness monomorphises a menu of 62 capacities; the theorem covers every S"]
TECHNIQUE = "Coq proof: induction over the push/extend chain for every response, capacity and prior buffer (fits: prior ++ parts; overflow: failure with whole leading parts); differential run around part boundaries"
LEVEL_TEXT = ("Theorems for every response, capacity S and prior contents: when everything fits the buffer is the prior contents followed by the parts (appended "
              "length = sum of the parts); otherwise failure is reported and the buffer holds the prior contents plus whole leading parts only; the prior "
              "contents are never disturbed; the one-byte key-handle length is exact because the regenerated capacity is 255; 0x04||x||y never panics within "
              "the declared capacities. Differential run with an independent layout oracle.")
CAPS = [0, 1, 2, 3, 4, 5, 6, 7, 8, 9, 10, 16, 32, 64, 65, 66, 67, 68, 69, 70, 71, 72, 73, 74, 75, 76, 77, 78, 79, 80, 100, 128, 130, 137, 138, 139, 140,
        141, 142, 200, 256, 300, 320, 321, 322, 323, 400, 512, 1024, 1100, 1345, 1346, 1347, 1348, 1400, 1417, 1418, 1419, 1420, 2048, 3072, 7609, 70000]


def feature_sets(tier):
    # the encoder does not depend on any feature - which is exactly what running it in all eight wire-feature builds checks
    return core.all_wire_feature_sets()


def parts_of(kind, a):
    if kind == "register":
        h, pk, kh, cert, sig = a
        return [bytes([h]), pk, bytes([len(kh) & 0xFF]), kh, cert, sig]
    if kind == "authenticate":
        up, count, sig = a
        return [bytes([up]), count.to_bytes(4, "big"), sig]
    return [a[0]]


def cases(tier, rng, schema, feats):
    out = []
    n = 0

    def hx(b):
        return b.hex() or "-"

    def add(cap, prior, kind, a):
        nonlocal n
        if kind == "register":
            f = ["%x" % a[0], hx(a[1]), hx(a[2]), hx(a[3]), hx(a[4])]
        elif kind == "authenticate":
            f = ["%x" % a[0], "%x" % a[1], hx(a[2]), "-", "-"]
        else:
            f = [hx(a[0]), "-", "-", "-", "-"]
        out.append(f"C09.{kind}.{n}\tu2fser\t{cap}\t{hx(prior)}\t{kind}\t" + "\t".join(f))
        n += 1

    def around(total_parts, prior_len):
        sums = [prior_len]
        for p in total_parts:
            sums.append(sums[-1] + len(p))
        want = set()
        for s in sums:
            for c in CAPS:
                if abs(c - s) <= 2 or c in (0, 1, 64, 7609):
                    want.add(c)
        near = sorted(CAPS, key=lambda c: abs(c - sums[-1]))[:4]
        return sorted(want | set(near))

    regs = []
    for khl in ([0, 1, 2, 63, 64, 127, 128, 254, 255] if tier == "quick" else range(256)):
        for certl in ([0, 1, 300, 1023, 1024] if tier == "quick" else [0, 1, 2, 100, 300, 512, 1000, 1023, 1024]):
            sigl = rng.choice([0, 1, 70, 71, 72])
            regs.append((rng.below(256), (b"\x04" + rng.bytes(64)) if rng.below(2) else rng.bytes(65), rng.bytes(khl), rng.bytes(certl), rng.bytes(sigl)))
    # certificates that look like DER (SEQUENCE, one/two-byte long-form length) with a declared length below, at and above the actual one;
    # every register response whose key is 0x04||x||y is also built through register::Response::new by the harness
    for hdr, decl, actual in ((b"\x30\x82", 300, 320), (b"\x30\x82", 316, 320), (b"\x30\x82", 317, 320), (b"\x30\x82", 0, 40), (b"\x30\x82", 1020, 1024),
                              (b"\x30\x82", 65535, 500), (b"\x30\x81", 100, 130), (b"\x30\x83", 1, 200), (b"\x30\x80", 0, 64)):
        nl = {b"\x30\x81": 1, b"\x30\x82": 2, b"\x30\x83": 3, b"\x30\x80": 0}[hdr]
        cert = hdr + (decl & (256 ** nl - 1) if nl else 0).to_bytes(nl, "big")
        cert = cert + rng.bytes(max(0, actual - len(cert)))
        regs.append((5, b"\x04" + rng.bytes(64), rng.bytes(64), cert, rng.bytes(71)))
    # signatures that are structurally exact DER ECDSA signatures, every combination of minimal / zero-prefixed / negative integers
    for kr in range(4):
        for ks in range(4):
            for _ in range(1 if tier == "quick" else 6):
                sig = gen.der_ecdsa_sig(rng, (kr, ks))
                regs.append((5, b"\x04" + rng.bytes(64), rng.bytes(64), rng.bytes(300), sig[:72]))
    # shapes that put part boundaries exactly on menu capacities
    regs += [(5, b"\x04" * 65, b"\x01" * 4, b"\x02" * 0, b"\x03" * 0), (5, b"\x04" * 65, b"\x01" * 70, b"\x02" * 182, b"\x03" * 2), (5, b"", b"", b"", b"")]
    for r in regs:
        for prior in (b"", b"\xee" * 3):
            for cap in around(parts_of("register", r), len(prior)):
                if len(prior) <= cap:
                    add(cap, prior, "register", r)
    for count in (0, 1, 0xFF, 0x100, 0xFFFF, 0x10000, 0x01020304, 0xFFFFFFFF, rng.below(2**32)):
        for sig in [rng.bytes(sigl) for sigl in (0, 1, 71, 72)] + [gen.der_ecdsa_sig(rng)[:72], gen.der_ecdsa_sig(rng, (2, 2))[:72]]:
            a = (rng.below(256), count, sig)
            for prior in (b"", b"\xee" * 2, b"\xee" * 64):
                for cap in around(parts_of("authenticate", a), len(prior)):
                    if len(prior) <= cap:
                        add(cap, prior, "authenticate", a)
    for prior in (b"", b"\xee", b"\xee" * 5):
        for cap in (0, 1, 2, 3, 4, 5, 6, 7, 8, 9, 10, 16):
            if len(prior) <= cap:
                add(cap, prior, "version", (b"U2F_V2",))
    # large buffers that are ALMOST FULL on entry: the response (or one of its parts) no longer fits and failure must be reported,
    # never a panic - for every large capacity of the menu, the free room ranging over every part boundary of the response
    big = [(b"U2F_V2",)], [(1, 7, b"\x30" * 70)], [(5, b"\x04" + b"\x11" * 64, b"\x22" * 64, b"\x33" * 300, b"\x44" * 70)]
    for kind, args in (("version", big[0]), ("authenticate", big[1]), ("register", big[2])):
        a = args[0]
        sums = [0]
        for part in parts_of(kind, a):
            sums.append(sums[-1] + len(part))
        rooms = sorted({max(0, x + d) for x in sums for d in (-1, 0, 1)})
        for cap in (1024, 2048, 3072, 7609, 70000):
            for room in rooms:
                if room <= cap:
                    add(cap, b"\xee" * (cap - room), kind, a)
    # a very large caller buffer, pre-filled beyond 2^16 bytes: the response still fits and must be appended (a limit on the WHOLE
    # buffer instead of on the appended bytes would report failure)
    for plen in (65100, 65500, 65529, 65530, 65531, 65536, 68000):
        prior = b"\xee" * plen
        add(70000, prior, "version", (b"U2F_V2",))
        add(70000, prior, "authenticate", (1, 7, b"\x30" * 70))
        add(70000, prior, "register", (5, b"\x04" + b"\x11" * 64, b"\x22" * 64, b"\x33" * 300, b"\x44" * 70))
    for xl in range(0, 33, 1 if tier != "quick" else 8):
        for yl in (0, 1, 31, 32):
            out.append(f"C09.new.{n}\tu2fnew\t{hx(rng.bytes(xl))}\t{hx(rng.bytes(yl))}")
            n += 1
    return out


def judge(line, m, i):
    if core.norm(m) != core.norm(i):
        return "model of the specification and implementation disagree"
    p = line.split("\t")
    if p[1] == "u2fnew":
        x = b"" if p[2] == "-" else bytes.fromhex(p[2])
        y = b"" if p[3] == "-" else bytes.fromhex(p[3])
        if i != "ok " + (b"\x04" + x + y).hex():
            return "public key is not 0x04 || x || y"
        return None
    cap = int(p[2])
    prior = b"" if p[3] == "-" else bytes.fromhex(p[3])
    f = [b"" if x == "-" else x for x in p[5:10]]
    kind = p[4]
    if kind == "register":
        parts = parts_of(kind, (int(f[0], 16), bytes.fromhex(f[1] or ""), bytes.fromhex(f[2] or ""), bytes.fromhex(f[3] or ""), bytes.fromhex(f[4] or "")))
    elif kind == "authenticate":
        parts = parts_of(kind, (int(f[0], 16), int(f[1], 16), bytes.fromhex(f[2] or "")))
    else:
        parts = parts_of(kind, (bytes.fromhex(f[0] or ""),))
    buf = prior
    ok = True
    for part in parts:
        if len(buf) + len(part) <= cap:
            buf += part
        else:
            ok = False
            break
    want = ("ok " if ok else "err ") + buf.hex()
    if i != want:
        return "buffer is not the prior contents followed by the (whole leading) parts of the U2F layout"
    return None


def nontrivial(line, m):
    return True


def classify(line, m):
    return line.split(".")[1] + ":" + (m or "none").split(" ")[0]
