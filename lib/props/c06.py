"""C06 - unknown options, extensions and entity members are skipped, not fatal."""
from .. import cbor, core, gen, mutate
from .common import *

ID = "C06"
PROP_FILE = "C06"
RULE = ("every extensible host map (options, MakeCredential / GetAssertion extensions, rp, user, descriptors in allow/exclude lists and in "
        "CredentialManagement, pubKeyCredParams entries) inside a full request and stand-alone; an unknown text-keyed member inserted at every "
        "position; unknown values from a grammar-based generator of definite-length CBOR (all seven majors, tags, half/single/double floats, "
        "simple values, nesting depth up to 16, sizes up to hundreds of bytes, non-minimal INTEGER heads) plus the real-world extras "
        "(transports, credBlob, minPinLength, credProps, hmac-secret-mc, prf), every member name of any other map of the specification, and "
        "names one edit away from the host's own members (camel-case prefixes and suffixes, dropped / added characters, other capitalisation). Each case is paired with the same request without the member: "
        "both must decode, and to the same value. Non-trivial = distinct (host, position, unknown value)")
ASSUMPTIONS = ["unknown values with non-minimal or 8-byte LENGTH heads are rejected with 0x12 by the skipper (C05 demands that for non-minimal encodings); C06 quantifies over shortest-form lengths"]
TECHNIQUE = "Coq proof: skipper consumes exactly one item for every definite-length CBOR tree (induction, unbounded depth); text-keyed maps decode to the same record with or without any number of unknown members at any positions (entry-loop theorem); paired differential run"
LEVEL_TEXT = ("Theorems: for every abstract CBOR item in shortest-length definite form (any nesting, tags, floats, simple values, any integer head width) the model of cbor-smol's skipper consumes exactly its encoding and nothing else (c06_skip_exact); a text-keyed map with ANY number of unknown members holding ANY such items at ANY positions decodes to exactly the record of the same map without them (c06_unknown_members_irrelevant); the host maps are text-keyed in the regenerated declarations. Differential run pairs every request with an unknown member against the same request without it.")
feature_sets = default_feature_sets

HOSTS = ["ctap2::AuthenticatorOptions", "ctap2::make_credential::Extensions", "ctap2::get_assertion::ExtensionsInput",
         "webauthn::PublicKeyCredentialRpEntity", "webauthn::PublicKeyCredentialUserEntity",
         "webauthn::PublicKeyCredentialDescriptorRef", "webauthn::PublicKeyCredentialParameters"]
EXTRAS = [("transports", ["usb", "nfc"]), ("credBlob", b"\x01" * 32), ("minPinLength", True), ("credProps", True),
          ("hmac-secret-mc", cbor.M([(1, cbor.M([(1, 2)])), (2, b"\x00" * 32)])), ("prf", cbor.M([("eval", cbor.M([("first", b"\x01" * 32)]))]))]


def host_paths(schema, tname, tree, prefix=()):
    """paths of sub-maps whose type is one of HOSTS"""
    d = schema.get(tname)
    out = []
    if not d or not isinstance(tree, cbor.M):
        return out
    if tname in HOSTS:
        out.append(prefix)
    if d["kind"] != "struct":
        return out
    for i, (k, v) in enumerate(tree.pairs):
        f = next((f for f in d["fields"] if f["key"] == k or k in f["aliases"]), None)
        if f is None:
            continue
        inner = f["ty"][1] if f["ty"][0] == "opt" else f["ty"]
        if inner[0] == "named":
            if inner[1] == "webauthn::FilteredPublicKeyCredentialParameters" and isinstance(v, list):
                for j, e in enumerate(v):
                    if isinstance(e, cbor.M):
                        out.append(prefix + (("v", i), ("e", j)))
            else:
                out += host_paths(schema, inner[1], v, prefix + (("v", i),))
        elif inner[0] == "vec" and inner[1][0] == "named" and isinstance(v, list):
            for j, e in enumerate(v):
                out += host_paths(schema, inner[1][1], e, prefix + (("v", i), ("e", j)))
    return out


def cases(tier, rng, schema, feats):
    g = gen.Gen(schema, rng, tier)
    out = []
    n = 0
    per_pos = 2 if tier == "quick" else 8

    def pair(op, pre, base_tree, new_tree):
        nonlocal n
        a = cbor.enc(base_tree).hex()
        b = cbor.enc(new_tree).hex()
        out.append(f"C06.base.{n}\t{op}\t" + (pre + a if op == "dec2" else pre + "\t" + a))
        out.append(f"C06.unk.{n}\t{op}\t" + (pre + b if op == "dec2" else pre + "\t" + b))
        n += 1

    def unknown_values():
        vals = [v for _, v in EXTRAS]
        keys = [k for k, _ in EXTRAS]
        for _ in range(per_pos):
            keys.append("x" + "".join(chr(97 + rng.below(26)) for _ in range(rng.below(12))))
            vals.append(mutate.random_item(rng, 0, 5))
        keys.append("deep")
        vals.append(mutate.nested(16, mutate.random_item(rng, 0, 2), "array"))
        # long names (a name copied into a bounded buffer 'for the log' would not fit): 31, 32, 33, 64 and 300 bytes
        for ln in (31, 32, 33, 64, 300):
            keys.append("enforceCredentialProtectionPolicy"[:ln] if ln <= 33 else "n" * ln)
            vals.append(rng.chance(1, 2))
        return list(zip(keys, vals))

    # names that are members (or aliases) of SOME map of the specification: in a host that does not define
    # them they are unknown members like any other (a copied attribute such as alias = "url" would capture them)
    foreign = sorted({k for d in schema.values() if d["kind"] == "struct" and not d["idx"] for f in d["fields"]
                      for k in [f["key"]] + list(f["aliases"]) if isinstance(k, str)})

    def foreign_for(tname):
        d = schema.get(tname)
        own = {k for f in d["fields"] for k in [f["key"]] + list(f["aliases"])} if d else set()
        res = []
        for k in foreign:
            if k not in own:
                res.append((k, "some text"))
                res.append((k, mutate.random_item(rng, 0, 3)))
        return res

    def near_for(tname):
        """names one edit away from a member of the host itself: camel-case prefixes (largeBlobKey -> largeBlob, large), a dropped or added
        final character, other capitalisation, common suffixes - an alias added for 'compatibility' would capture exactly such a name"""
        import re as _re
        d = schema.get(tname)
        own = {k for f in d["fields"] for k in [f["key"]] + list(f["aliases"]) if isinstance(k, str)} if d else set()
        names = set()
        for k in own:
            segs = _re.findall(r"[A-Za-z][a-z0-9]*|[^A-Za-z]+", k)
            for j in range(1, len(segs)):
                names.add("".join(segs[:j]).rstrip("-_"))
                names.add("".join(segs[j:]).lstrip("-_"))
                names.add("".join(segs[j:]).lstrip("-_")[:1].lower() + "".join(segs[j:]).lstrip("-_")[1:])
            names |= {k[:-1], k + "s", k + "Key", k + "Id", k + "Name", k.lower(), k.upper(), k[:1].upper() + k[1:], k.replace("-", "_"), k.replace("-", ""), "_" + k, k + " "}
        res = []
        for k in sorted(n for n in names if n and n not in own):
            for v in (True, cbor.M([("read", True)]), "some text"):
                res.append((k, v))
        return res

    # names that COLLIDE with a member name under a common 32-bit string hash (FNV-1a, FNV-1, djb2): a dispatch by hash instead of by
    # string would take them for the member.  Found by meet-in-the-middle (each step of these hashes is invertible modulo 2^32).
    def collisions(targets):
        M = 0xFFFFFFFF
        alpha = b"abcdefghijklmnopqrstuvwxyz"
        out_ = {}
        def mitm(step, unstep, basis):
            import itertools as _it
            fwd = {}
            for pre in _it.product(alpha, repeat=4):
                h = basis
                for c in pre:
                    h = step(h, c)
                fwd.setdefault(h, bytes(pre))
            for name in targets:
                h0 = basis
                for c in name.encode():
                    h0 = step(h0, c)
                found = 0
                for suf in _it.product(alpha, repeat=3):
                    h = h0
                    for c in reversed(suf):
                        h = unstep(h, c)
                    if h in fwd:
                        cand = (fwd[h] + bytes(suf)).decode()
                        if cand != name:
                            out_.setdefault(name, []).append(cand)
                            found += 1
                            if found >= 2:
                                break
        P = 16777619
        Pinv = pow(P, -1, 2**32)
        mitm(lambda h, c: ((h ^ c) * P) & M, lambda h, c: ((h * Pinv) & M) ^ c, 2166136261)          # FNV-1a
        mitm(lambda h, c: ((h * P) & M) ^ c, lambda h, c: (((h ^ c) * Pinv) & M), 2166136261)          # FNV-1
        i33 = pow(33, -1, 2**32)
        mitm(lambda h, c: (h * 33 + c) & M, lambda h, c: ((h - c) * i33) & M, 5381)                    # djb2
        return out_

    opt_t = "ctap2::AuthenticatorOptions"
    if opt_t in schema:
        own_keys = [f["key"] for f in schema[opt_t]["fields"] if isinstance(f["key"], str)]
        col = collisions(own_keys)
        for name, cands in col.items():
            for cnd in cands:
                for other in own_keys:
                    if other == name:
                        continue
                    for val in (False, 42):
                        base_o = cbor.M([(other, True)])
                        new_o = cbor.M([(other, True), (cnd, val)])
                        for cmd, key in ((0x01, 7), (0x02, 5)):
                            if cmd == 0x01:
                                body = lambda o: cbor.M([(1, b"\x11" * 32), (2, cbor.M([("id", "example.com")])), (3, cbor.M([("id", b"\x01")])),
                                                         (4, [cbor.M([("alg", -7), ("type", "public-key")])]), (7, o)])
                            else:
                                body = lambda o: cbor.M([(1, "example.com"), (2, b"\x22" * 32), (5, o)])
                            pair("dec2", bytes([cmd]).hex(), body(base_o), body(new_o))
    for cmd, (variant, t) in REQUESTS.items():
        if cmd == 0x41:
            continue
        for rep in range(2 if tier == "quick" else 6):
            tree = g.named_wire(t, present="all" if rep == 0 else None)
            for hp in host_paths(schema, t, tree):
                host = mutate.get(tree, hp)
                for pos in range(len(host.pairs) + 1):
                    for k, v in unknown_values()[: (4 if tier == "quick" else 100)] if pos else unknown_values():
                        if any(k == kk for kk, _ in host.pairs):
                            continue
                        pair("dec2", bytes([cmd]).hex(), tree, mutate.insert_pair(tree, hp, pos, k, v))
    # SEVERAL unknown members in the same host (two and three, adjacent and apart, the same unknown key twice is a different matter and
    # not sent): a duplicate check that also covers ignored members would reject the second one
    for cmd, (variant, t) in REQUESTS.items():
        if cmd == 0x41:
            continue
        tree = g.named_wire(t, present="all")
        for hp in host_paths(schema, t, tree):
            host = mutate.get(tree, hp)
            uv = unknown_values()
            for a in range(len(host.pairs) + 1):
                for b in (a, len(host.pairs)):
                    (k1, v1), (k2, v2), (k3, v3) = uv[0], uv[1], uv[2]
                    t2 = mutate.insert_pair(mutate.insert_pair(tree, hp, b, k2, v2), hp, a, k1, v1)
                    pair("dec2", bytes([cmd]).hex(), tree, t2)
                    t3 = mutate.insert_pair(t2, hp, 0, k3, v3)
                    pair("dec2", bytes([cmd]).hex(), tree, t3)
    for t in HOSTS:
        tree = g.named_wire(t, present="all")
        uv = unknown_values()
        for a in range(len(tree.pairs) + 1):
            t2 = mutate.insert_pair(mutate.insert_pair(tree, (), len(tree.pairs), uv[1][0], uv[1][1]), (), a, uv[0][0], uv[0][1])
            pair("decty", t, tree, t2)
            pair("decty", t, tree, mutate.insert_pair(t2, (), 0, uv[2][0], uv[2][1]))
    for t in HOSTS:
        for rep in range(2 if tier == "quick" else 6):
            tree = g.named_wire(t, present="all" if rep == 0 else None)
            for pos in range(len(tree.pairs) + 1):
                for k, v in unknown_values():
                    pair("decty", t, tree, mutate.insert_pair(tree, (), pos, k, v))
        if t in schema:
            # every foreign member name, with a text and a non-text value, with all and with no optional members
            for present in ("all", "none"):
                tree = g.named_wire(t, present=present)
                for k, v in foreign_for(t) + near_for(t):
                    if any(k == kk for kk, _ in tree.pairs):
                        continue
                    pair("decty", t, tree, mutate.insert_pair(tree, (), rng.below(len(tree.pairs) + 1), k, v))
    return out


def judge(line, m, i):
    if core.norm(m) != core.norm(i):
        return "model of the specification and implementation disagree"
    return None


def cross(results):
    """results: {case id: (line, model, impl)}; the request with the unknown member must decode to the same value as without"""
    bad = []
    for cid, (line, m, i) in results.items():
        if cid.startswith("C06.unk."):
            base = results.get("C06.base." + cid.split(".")[2])
            if base is None:
                continue
            bi = base[2]
            if bi and bi.startswith("ok") and bi != i:
                bad.append((line, f"decodes to {bi[:120]}... without the unknown member", i, "unknown member changed the decoded value or made the request fail"))
    return bad


def nontrivial(line, m):
    return line.split(".")[1] == "unk"


def classify(line, m):
    return line.split(".")[1] + ":" + (m or "none").split(" ")[0]
