"""C02 - CTAP2 response encoding carries every member under its specified key, exactly."""
from .. import cbor, core, gen
from .common import *

ID = "C02"
PROP_FILE = "C02"
RULE = ("every response kind; every subset of optional members where 2^k <= limit, otherwise none/singletons/pairs/full/random; boundary and "
        "random member values; both attestation statement shapes; the four COSE key kinds; Reset/Selection/Vendor; GetNextAssertion against "
        "GetAssertion on the same value. The implementation's bytes are compared with the model's and are parsed back with a generic CBOR parser: "
        "status byte 0, one map, every set member once under its specification key, no null member. Non-trivial = distinct (variant, value)")
ASSUMPTIONS = ["make_credential::UnsignedExtensionOutputs has no constructor outside the crate: that member is always absent"]
TECHNIQUE = "Coq proof: regenerated response declarations equal the specification member tables; framing theorems; generic encoder theorems (a struct is one map whose entries are exactly the set members, each once, unset optionals never emitted); differential run with parse-back"
LEVEL_TEXT = ("Kernel-checked equality of every serialisable declaration regenerated from /repo with the specification's member tables for all feature sets and of the Response::serialize arm table; theorems about the framing (status byte, empty-map collapse, GetNextAssertion = GetAssertion, parameter-less responses) and, for every value, about the structure of the encoder's output (c02_struct_is_one_map, c02_entries_are_set_members, c02_unset_optional_not_emitted, c02_each_member_once); differential run over member subsets with parse-back of the emitted bytes.")
feature_sets = default_feature_sets


def cases(tier, rng, schema, feats):
    g = gen.Gen(schema, rng, tier)
    out = []
    n = 0
    limit = 128 if tier == "quick" else 4096
    for variant, t in RESPONSES.items():
        labels = g.optional_labels(t)
        for sub in gen.subsets_or_sample(labels, rng, limit):
            v = gen.show(g.named_val(t, present=sub, focus=rng.chance(1, 2)))
            out.append(f"C02.{n}\tenc2\t{variant}\t7609\t-\t{v}")
            n += 1
        for _ in range(20 if tier == "quick" else 200):
            v = gen.show(g.named_val(t, present=None, focus=rng.chance(1, 2)))
            out.append(f"C02.{n}\tenc2\t{variant}\t7609\t-\t{v}")
            n += 1
    for variant in UNIT_RESPONSES:
        for cap in (1, 2, 64, 7609):
            out.append(f"C02.{n}\tenc2\t{variant}\t{cap}\t-\t-")
            n += 1
    # the caller's buffer is not empty on entry (reused between responses): the message must be the same
    for variant, t in RESPONSES.items():
        for prior_len in (1, 2, 17, 300):
            v = gen.show(g.named_val(t, present=None, focus=False))
            out.append(f"C02.{n}\tenc2\t{variant}\t7609\t{rng.bytes(prior_len).hex()}\t{v}")
            n += 1
            out.append(f"C02.{n}\tenc2\t{variant}\t7609\t{rng.bytes(prior_len).hex()}\t{gen.show(g.named_val(t, present='none'))}")
            n += 1
    for variant in UNIT_RESPONSES:
        out.append(f"C02.{n}\tenc2\t{variant}\t64\t{rng.bytes(9).hex()}\t-")
        n += 1
    # relying-party and user entities in responses whose text members start with something a helper might single out
    cm_t = RESPONSES.get("CredentialManagement")
    if cm_t:
        for pre in gen.TEXT_PREFIXES:
            base = g.named_val(cm_t, present=frozenset(["rp", "user"]))
            txt = (pre + "example.com/app-id.json").encode()
            def retext(v):
                if v[0] == "s":
                    return ("s", txt[:64])
                if v[0] == "S":
                    return ("S", retext(v[1]))
                if v[0] == "R":
                    return ("R", [(l, retext(x)) for l, x in v[1]])
                return v
            fs = [(l, retext(x) if l in ("rp", "user") else x) for l, x in base[1]]
            out.append(f"C02.{n}\tenc2\tCredentialManagement\t7609\t-\t{gen.show(('R', fs))}")
            n += 1
    # the advertised algorithm list carries whatever identifiers the authenticator put there: every COSE identifier in -70..7,
    # the neighbours of -257 / -65535 and the i32 range ends, alone and next to a second entry
    gi_t = RESPONSES.get("GetInfo")
    if gi_t:
        scan = list(range(-70, 8)) + [-259, -258, -257, -256, -65536, -65535, 255, 256, 65535, 65536, 2**31 - 1, -(2**31)]
        for a in scan:
            for second in (None, -7):
                base = g.named_val(gi_t, present=frozenset(["algorithms"]))
                algs = [("R", [("alg", ("i", a))])] + ([("R", [("alg", ("i", second))])] if second is not None else [])
                fs = [(l, ("S", ("L", algs)) if l == "algorithms" else v) for l, v in base[1]]
                out.append(f"C02.{n}\tenc2\tGetInfo\t7609\t-\t{gen.show(('R', fs))}")
                n += 1
    return out


def expected_keys(schema, tname, valtext):
    """keys that must appear: the integer keys of the members that are set (top level)"""
    return None


def judge(line, m, i):
    if core.norm(m) != core.norm(i):
        return "model of the specification and implementation disagree"
    if i and i.startswith("buf "):
        b = bytes.fromhex(i[4:])
        if not b or b[0] != 0:
            return "status byte is not 0x00 for a response that fits"
        if len(b) > 1:
            try:
                tree, end = cbor.dec(b, 1)
            except ValueError as e:
                return f"body is not one CBOR item: {e}"
            if end != len(b):
                return "bytes follow the CBOR map"
            if not isinstance(tree, cbor.M):
                return "body is not a map"
            keys = [cbor.enc(k) for k, _ in tree.pairs]
            if len(set(keys)) != len(keys):
                return "a member appears twice"
            if any(v is None for _, v in tree.pairs):
                return "an unset member is encoded as null"
    return None


def nontrivial(line, m):
    return True


def classify(line, m):
    return line.split("\t")[2] + ":" + ("empty" if m == "buf 00" else (m or "none").split(" ")[0])
