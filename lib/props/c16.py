"""C16 - cargo features only add members; they never change the wire format of the rest."""
from .. import cbor, core, gen
from .common import *

ID = "C16"
PROP_FILE = "C16"
SAME_CASES_ALL_FEATURES = True
RULE = ("one seed-determined corpus of encode cases (values of every serialisable type / response using only the members that exist without any "
        "feature) and decode cases (requests and nested dictionaries using only feature-independent members), run under every build "
        "(quick: 6 of the 8 wire-affecting combinations plus std, std+arbitrary and everything+std; thorough: all 8 plus four std / arbitrary builds) and compared transcript-for-transcript across configurations and with the "
        "model; plus a corpus over the members of the all-features declarations (feature-added members set, LargeBlobs fragments of 0..3009 bytes) "
        "compared between builds that differ only in std / arbitrary, where every answer must be identical. Non-trivial = distinct case with a non-error answer")
ASSUMPTIONS = ["std and arbitrary do not appear in any cfg on a declaration (kernel-checked on the regenerated declarations); they are built alone and on top of all wire features"]
TECHNIQUE = "Coq proof: (1) kernel obligation that for all 32x32 pairs of feature sets f <= f' the regenerated declarations under f' extend those under f; (2) theorems, by induction over the codec, that under this extension relation every value well-typed in the smaller configuration has the identical encoding in the larger one, and that its encoding decodes in the larger configuration to the same value with the added members absent; cross-build differential run"
LEVEL_TEXT = ("Kernel-checked on every run: for all pairs of feature sets the declarations regenerated from /repo under the larger set extend those under the smaller one (same keys, wire types, "
              "optionality and order for common members; added members optional and not emitted when unset; capacities only grow), and std/arbitrary change nothing. Theorems "
              "(coq/Proofs/MonoP.v, LiftP.v; Properties/C16.v): c16_encoding_independent_of_features - for ANY value well-typed in the smaller configuration, of any size and nesting, encode gives "
              "the same bytes in the larger configuration; c16_common_message_decodes_in_both - that message decodes in the smaller configuration to the value and in the larger one to lift of it "
              "(every common member keeps its value, every added member is reported absent; lifting into the same configuration is the identity). Messages that are not canonical encodings (other "
              "key orders, unknown members) are covered by the cross-build differential run: the same encode/decode corpus run under every build must produce identical transcripts.")


def feature_sets(tier):
    # std and arbitrary must change nothing: they are built alone (std; std+arbitrary, which arbitrary implies) and on top of everything
    nonwire = [["std"], ["arbitrary", "std"], core.WIRE_FEATURES + ["std"], core.WIRE_FEATURES + ["arbitrary", "std"]]
    if tier == "quick":
        return [[], ["get-info-full"], ["large-blobs"], ["third-party-payment"], ["large-blobs", "third-party-payment"], core.WIRE_FEATURES] + nonwire[:3]
    return core.all_wire_feature_sets() + nonwire


def cases(tier, rng, schema, feats):
    base = core.load_schema([])
    g = gen.Gen(base, rng, tier)
    out = []
    n = 0
    k = 6 if tier == "quick" else 40
    for t in ENCTY_TYPES:
        if t not in base:
            continue
        for _ in range(k):
            out.append(f"C16.enc.{n}\tencty\t{t}\t{gen.show(g.named_val(t))}")
            n += 1
    for variant, t in RESPONSES.items():
        for _ in range(k):
            out.append(f"C16.enc.{n}\tenc2\t{variant}\t7609\t-\t{gen.show(g.named_val(t))}")
            n += 1
    for cmd, (variant, t) in REQUESTS.items():
        for _ in range(2 * k):
            out.append(f"C16.dec.{n}\tdec2\t{bytes([cmd]).hex()}{cbor.enc(g.named_wire(t)).hex()}")
            n += 1
    # members whose size is near a feature-dependent constant (LARGE_BLOB_MAX_FRAGMENT_LENGTH = 0 / 3008; the
    # message limit): the same request must be accepted or rejected alike in every configuration
    for L in (0, 1, 16, 17, 3007, 3008, 3009, 3072, 4000):
        for extra in ([], [(4, L)], [(5, b"\x01" * 16), (6, 2)]):
            tree = cbor.M([(2, rng.bytes(L)), (3, 0)] + extra)
            out.append(f"C16.dec.{n}\tdec2\t0c{cbor.enc(tree).hex()}")
            n += 1
    # members that are parsed and ignored (the legacy rp icon / url, unknown members) or copied into feature-independent buffers, with
    # sizes at and around every constant of src/sizes.rs and its neighbours (+-1, +-64): a limit derived from a feature-dependent
    # constant shows as the same request accepted in one build and refused in another
    big = (0, 1, 128, 129, 255, 256, 1023, 1024, 1025, 2047, 2048, 2049, 2944, 3007, 3008, 3009, 3071, 3072, 3073, 4000, 7000, 7609) + tuple(gen.novel_sizes(20000))
    ch = cbor.enc(rng.bytes(32))
    for L in big:
        txt = "i" * L
        for member in ("icon", "url"):
            rp = cbor.M([("id", "example.com"), (member, txt)])
            out.append(f"C16.dec.{n}\tdecty\twebauthn::PublicKeyCredentialRpEntity\t{cbor.enc(rp).hex()}")
            n += 1
            mc = cbor.M([(1, rng.bytes(32)), (2, rp), (3, cbor.M([("id", b"\x01")])), (4, [cbor.M([("alg", -7), ("type", "public-key")])])])
            out.append(f"C16.dec.{n}\tdec2\t01{cbor.enc(mc).hex()}")
            n += 1
        for val in (txt, b"\x00" * L):
            mc = cbor.M([(1, rng.bytes(32)), (2, cbor.M([("id", "example.com")])), (3, cbor.M([("id", b"\x01"), ("zz", val)])),
                         (4, [cbor.M([("alg", -7), ("type", "public-key")])]), (0x30, val)])
            out.append(f"C16.dec.{n}\tdec2\t01{cbor.enc(mc).hex()}")
            n += 1
            ga = cbor.M([(1, "example.com"), (2, rng.bytes(32)), (0x31, val)])
            out.append(f"C16.dec.{n}\tdec2\t02{cbor.enc(ga).hex()}")
            n += 1
    for get in (0, 1, 255, 256, 3007, 3008, 3009, 65535, 2**32 - 1):
        out.append(f"C16.dec.{n}\tdec2\t0c{cbor.enc(cbor.M([(1, get), (3, 0)])).hex()}")
        n += 1
    for t, d in base.items():
        if d["kind"] == "struct" and d["de"]:
            for _ in range(k):
                out.append(f"C16.dec.{n}\tdecty\t{t}\t{cbor.enc(g.named_wire(t)).hex()}")
                n += 1
    # helper functions can be feature-dependent too (a second implementation under cfg(feature = "std"), say): the text-boundary
    # corpus of C13 (names and icons around the limits with every class of character at every alignment) uses only
    # feature-independent members and must come out the same in every build
    from . import c13 as _c13
    for line in _c13.cases(tier, rng.fork("c13"), base, []):
        f = line.split("\t")
        out.append(f"C16.txt.{n}\t" + "\t".join(f[1:]))
        n += 1
    # ... and so must the two filtering lists (every arrangement of known / unknown entries of C14's corpus): a fix-up compiled
    # only under one feature shows as a different decoded list in that build
    from . import c14 as _c14
    for line in _c14.cases(tier, rng.fork("c14"), base, []):
        f = line.split("\t")
        if f[1] == "dec2" or f[1] == "decty":
            out.append(f"C16.flt.{n}\t" + "\t".join(f[1:]))
            n += 1
    # std and arbitrary must change NOTHING, not only the members common to all configurations: a corpus over the members of the
    # all-features declarations too (feature-added members set, containers whose capacity is a feature-dependent constant filled and
    # over-filled), compared only between builds with the same wire features (none vs std vs std+arbitrary; all vs all+std)
    full = core.load_schema(core.WIRE_FEATURES)
    gf = gen.Gen(full, rng.fork("nw"), tier)
    kk = 3 if tier == "quick" else 20
    for variant, t in RESPONSES.items():
        for _ in range(kk):
            out.append(f"C16.nw.{n}\tenc2\t{variant}\t7609\t-\t{gen.show(gf.named_val(t))}")
            n += 1
    for cmd, (variant, t) in REQUESTS.items():
        for _ in range(kk):
            out.append(f"C16.nw.{n}\tdec2\t{bytes([cmd]).hex()}{cbor.enc(gf.named_wire(t)).hex()}")
            n += 1
    for t, d in full.items():
        if d["kind"] == "struct" and d["de"]:
            for _ in range(kk):
                out.append(f"C16.nw.{n}\tdecty\t{t}\t{cbor.enc(gf.named_wire(t)).hex()}")
                n += 1
    for L in (0, 1, 2, 16, 3007, 3008, 3009):
        frag = rng.bytes(L)
        out.append(f"C16.nw.{n}\tenc2\tLargeBlobs\t7609\t-\t{{config=S(b{frag.hex()})}}")
        n += 1
        out.append(f"C16.nw.{n}\tdecty\tctap2::large_blobs::Response\t{cbor.enc(cbor.M([(1, frag)])).hex()}")
        n += 1
    return out


def wire_part(key):
    return "+".join(x for x in key.split("+") if x not in ("std", "arbitrary", "none")) or "none"


def strip_added(ans):
    """members added by features print as `label=N` in larger configurations; compare values on the common members:
    drop absent members (=N) from records before comparing"""
    import re
    prev = None
    while prev != ans:
        prev = ans
        ans = re.sub(r"([{;])[a-z_0-9]+=N(?=[;}])", r"\1", ans)
        ans = ans.replace("{;", "{").replace(";;", ";").replace(";}", "}")
    return ans


def judge(line, m, i):
    # C16's observation is equality ACROSS builds (cross_features below)
    return None


def cross_features(all_results):
    """all_results: {featkey: {cid: (line, model, impl)}}: identical transcripts (on common members) across builds"""
    bad = []
    keys = sorted(all_results)
    if not keys:
        return bad
    ref = keys[0]
    for cid, (line, m, i) in all_results[ref].items():
        if cid.startswith("C16.nw."):
            continue
        for k in keys[1:]:
            other = all_results[k].get(cid)
            if other is None:
                continue
            a, b = strip_added(core.norm(i)), strip_added(core.norm(other[2]))
            if a != b:
                bad.append({"features": f"{ref} vs {k}", "case": line, "model": i, "implementation": other[2],
                            "why": f"the same case gives different answers under features [{ref}] and [{k}]"})
    for k in keys:
        w = wire_part(k)
        if w == k or w not in all_results:
            continue
        for cid, (line, m, i) in all_results[w].items():
            if not cid.startswith("C16.nw."):
                continue
            other = all_results[k].get(cid)
            if other is not None and core.norm(i) != core.norm(other[2]):
                bad.append({"features": f"{w} vs {k}", "case": line, "model": i, "implementation": other[2],
                            "why": f"std / arbitrary change the answer: the same case differs under features [{w}] and [{k}]"})
    return bad


def nontrivial(line, m):
    return bool(m) and not m.startswith("err")


def classify(line, m):
    return line.split(".")[1] + ":" + (m or "none").split(" ")[0]
