#!/usr/bin/env python3
"""Tie-sensitivity sweep: syntactic mutants of /repo/src (non-test code) against the kernel obligations only.

For every mutant that still compiles (cargo check --all-features) the translator is run and every file of
coq/Obligations is rebuilt; a mutant after which NO obligation breaks is 'silent to the ties' - it can then only be
caught by the differential run (or lives in code no property rests on).  The sweep works on private copies:
a scratch worktree of /repo and a copy of /verif under /tmp, both removed at the end.  It measures the ties, it
decides no property.

usage: mutation_sweep.py [per_file_limit] [seed]      writes /verif/mutation/REPORT.md and report.json"""
import json, os, random, re, shutil, subprocess, sys, time

LIMIT = int(sys.argv[1]) if len(sys.argv) > 1 else 20
SEED = int(sys.argv[2]) if len(sys.argv) > 2 else 1
REPO = "/tmp/mut-repo"
VERIF = "/tmp/mut-verif"
ENV = dict(os.environ, CARGO_NET_OFFLINE="true", CARGO_TARGET_DIR="/tmp/mut-target", VERIF_REPO=REPO)


def sh(cmd, cwd=None, timeout=1800):
    p = subprocess.run(cmd, cwd=cwd, env=ENV, capture_output=True, text=True, timeout=timeout)
    return p.returncode, p.stdout + p.stderr


def setup():
    subprocess.run(["git", "-C", "/repo", "worktree", "remove", "--force", REPO], capture_output=True)
    shutil.rmtree(VERIF, ignore_errors=True)
    subprocess.run(["git", "-C", "/repo", "worktree", "add", "--detach", REPO, "HEAD"], check=True, capture_output=True)
    if os.path.exists("/repo/Cargo.lock"):
        shutil.copy("/repo/Cargo.lock", REPO + "/Cargo.lock")
    os.makedirs(VERIF)
    for d in ("coq", "lib", "translator", "harness"):
        shutil.copytree("/verif/" + d, VERIF + "/" + d, symlinks=True)
    os.makedirs(VERIF + "/.cache", exist_ok=True)
    if os.path.isdir("/verif/.cache/target-tr"):
        shutil.copytree("/verif/.cache/target-tr", VERIF + "/.cache/target-tr")


def code_region(text):
    """offset where the test module starts (mutants are taken before it)"""
    m = re.search(r"#\[cfg\(test\)\]\s*mod\s+\w+", text)
    return m.start() if m else len(text)


def mutants(path, text, rng):
    end = code_region(text)
    out = []
    # skip comment lines
    spans = [(m.start(), m.end()) for m in re.finditer(r"//[^\n]*", text)]

    def in_comment(i):
        return any(a <= i < b for a, b in spans)

    for m in re.finditer(r"(?<![\w.])(\d+)(?![\w.])", text[:end]):
        if in_comment(m.start()):
            continue
        v = int(m.group(1))
        out.append(("int+1", m.start(), m.end(), str(v + 1)))
    swaps = {"<=": "<", ">=": ">", "==": "!=", "!=": "==", "&&": "||", "||": "&&"}
    for m in re.finditer(r"<=|>=|==|!=|&&|\|\|", text[:end]):
        if in_comment(m.start()):
            continue
        out.append(("op " + m.group(0), m.start(), m.end(), swaps[m.group(0)]))
    for m in re.finditer(r"(?<![<>=!-])([<>])(?![<>=])\s", text[:end]):
        # bare comparison (heuristic: followed by a space; generics have none)
        if in_comment(m.start()) or text[m.start() - 1] != " ":
            continue
        out.append(("op " + m.group(1), m.start(1), m.end(1), m.group(1) + "="))
    for m in re.finditer(r'"([A-Za-z0-9_.\-]{2,})"', text[:end]):
        if in_comment(m.start()):
            continue
        out.append(("str", m.start(1), m.end(1), m.group(1) + "x"))
    for m in re.finditer(r"^[ \t]*#\[serde[^\n]*\]\n", text[:end], re.M):
        out.append(("drop-attr", m.start(), m.end(), ""))
    for m in re.finditer(r"^[ \t]*#\[cfg\(feature[^\n]*\]\n", text[:end], re.M):
        out.append(("drop-cfg", m.start(), m.end(), ""))
    rng.shuffle(out)
    # keep a spread of kinds
    picked, seen = [], {}
    for mu in out:
        k = mu[0].split(" ")[0]
        if seen.get(k, 0) < max(2, LIMIT // 4):
            picked.append(mu)
            seen[k] = seen.get(k, 0) + 1
        if len(picked) >= LIMIT:
            break
    return picked


def obligations():
    return sorted(f[:-2] for f in os.listdir(VERIF + "/coq/Obligations") if f.endswith(".v"))


def evaluate():
    """translate + rebuild all obligations; returns (translator_unknown, broken obligation names)"""
    rc, out = sh(["python3", "-c", "import json; from lib import core; print(json.dumps(core.translate()))"], cwd=VERIF)
    try:
        tr = json.loads(out.strip().splitlines()[-1])
    except Exception:
        return -1, ["translator crashed"]
    targets = [f"Obligations/{o}.vo" for o in obligations()]
    rc, out = sh(["make", "-k", "-j16"] + targets, cwd=VERIF + "/coq", timeout=3600)
    broken = sorted(set(re.findall(r'File "\./Obligations/(\w+)\.v"', out)))
    return tr.get("unknown", 0), broken


def main():
    rng = random.Random(SEED)
    setup()
    rc, out = sh(["coq_makefile", "-f", "_CoqProject", "-o", "Makefile"], cwd=VERIF + "/coq")
    unk, broken = evaluate()
    assert unk == 0 and not broken, ("baseline not clean", unk, broken)
    files = []
    for root, _, fs in os.walk(REPO + "/src"):
        for f in fs:
            if f.endswith(".rs"):
                files.append(os.path.join(root, f))
    results = []
    t0 = time.time()
    for path in sorted(files):
        text = open(path).read()
        for kind, a, b, repl in mutants(path, text, rng):
            mutated = text[:a] + repl + text[b:]
            open(path, "w").write(mutated)
            line = text.count("\n", 0, a) + 1
            rc, out = sh(["cargo", "check", "--offline", "--all-features"], cwd=REPO)
            rec = {"file": os.path.relpath(path, REPO), "line": line, "kind": kind, "from": text[a:b].strip()[:60], "to": repl[:60],
                   "source_line": text.splitlines()[line - 1].strip()[:140]}
            if rc != 0:
                rec["outcome"] = "does-not-compile"
            else:
                unk, broken = evaluate()
                rec["outcome"] = "tie-broken" if (broken or unk) else "SILENT"
                rec["unknown"] = unk
                rec["broken"] = broken
            results.append(rec)
            print(json.dumps(rec), flush=True)
            open(path, "w").write(text)
    unk, broken = evaluate()
    summary = {"seed": SEED, "per_file_limit": LIMIT, "wall_s": round(time.time() - t0), "baseline_clean_after": unk == 0 and not broken,
               "total": len(results), "does_not_compile": sum(r["outcome"] == "does-not-compile" for r in results),
               "tie_broken": sum(r["outcome"] == "tie-broken" for r in results), "silent": sum(r["outcome"] == "SILENT" for r in results)}
    os.makedirs("/verif/mutation", exist_ok=True)
    json.dump({"summary": summary, "results": results}, open("/verif/mutation/report.json", "w"), indent=1)
    with open("/verif/mutation/REPORT.md", "w") as f:
        f.write("# Tie-sensitivity sweep (tools/mutation_sweep.py)\n\n")
        f.write("Syntactic mutants of the non-test code of /repo/src against the kernel obligations only (Tie 1, 1b, 1c); no differential run.\n\n")
        f.write("```\n" + json.dumps(summary, indent=1) + "\n```\n\n")
        f.write("## Mutants after which no obligation breaks\n\n| file:line | kind | change | source line |\n|---|---|---|---|\n")
        for r in results:
            if r["outcome"] == "SILENT":
                f.write(f"| {r['file']}:{r['line']} | {r['kind']} | `{r['from']}` -> `{r['to']}` | `{r['source_line']}` |\n")
    subprocess.run(["git", "-C", "/repo", "worktree", "remove", "--force", REPO], capture_output=True)
    shutil.rmtree(VERIF, ignore_errors=True)
    shutil.rmtree("/tmp/mut-target", ignore_errors=True)
    print(json.dumps(summary))


if __name__ == "__main__":
    main()
