#!/usr/bin/env python3
"""Regenerate the seed table of DESIGN.md section 11 from seeded/MATRIX.json (isolated matrix run) and the meta.json of
every seed.  Seeds that are not in the matrix (later rounds) get a row from their own check's individual run, recorded in
their meta.json as "own_check": "failing-input" | "obligation-only" | "missed"."""
import glob, json, os, re

ROOT = "/verif"
matrix = json.load(open(f"{ROOT}/seeded/MATRIX.json")) if os.path.exists(f"{ROOT}/seeded/MATRIX.json") else {}
rows = []
for d in sorted(glob.glob(f"{ROOT}/seeded/C*-*")):
    sid = os.path.basename(d)
    try:
        meta = json.load(open(d + "/meta.json"))
    except Exception:
        meta = {}
    prop = (meta.get("property") or sid[:3]).upper()
    needs = " ".join(str(meta.get("needs", "")).split())
    needs = (needs[:160] + "…") if len(needs) > 160 else needs
    needs = needs.replace("|", "/")
    rnd = meta.get("round", "")
    if sid in matrix and len([k for k in matrix[sid] if k.startswith("C")]) >= 19:
        r = {k: v for k, v in matrix[sid].items() if k.startswith("C")}
        own = matrix[sid].get("own_final") or r.get(prop)
        own_txt = "**yes**" if own == "INPUT" else ("obligation only" if own == "tie" else "**NO**")
        others = ", ".join(p for p, v in sorted(r.items()) if v == "INPUT" and p != prop) or "-"
        ties = ", ".join(p for p, v in sorted(r.items()) if v == "tie" and p != prop) or "-"
    elif sid in matrix and matrix[sid].get("own_final"):
        own = matrix[sid]["own_final"]
        own_txt = ("**yes**" if own == "INPUT" else ("obligation only" if own == "tie" else "**NO**")) + " (isolated run, own check only)"
        others, ties = "(not run)", ""
    else:
        oc = meta.get("own_check", "failing-input")
        own_txt = {"failing-input": "**yes**", "obligation-only": "obligation only", "missed": "**NO**"}.get(oc, oc) + " (individual run)"
        others, ties = "(not in the matrix run)", ""
    rows.append(f"| {sid} | {prop} | {needs} | {own_txt} | {others} | {ties} |")

head = ("| seed | property given to the agent | what the breakage needs | own check reports a failing input | other checks reporting a "
        "failing input | checks reporting only a broken obligation (`no-failing-input-found`) |\n|---|---|---|---|---|---|\n")
table = head + "\n".join(rows) + "\n"
s = open(f"{ROOT}/DESIGN.md").read()
m = re.search(r"\| seed \| property given to the agent .*?\n(?:\|.*\n)+", s)
assert m, "table not found"
s = s[: m.start()] + table + s[m.end():]
open(f"{ROOT}/DESIGN.md", "w").write(s)
n_in = sum(1 for r in rows if "(individual run)" not in r)
print(f"{len(rows)} rows, {n_in} from the matrix")
