#!/usr/bin/env python3
"""Applies every seeded change to /repo in turn, runs the given checks (default: all 19) in the quick tier,
reverts, and writes seeded/MATRIX.json + seeded/MATRIX.md.  Do not run other checks concurrently."""
import json, os, subprocess, sys
ROOT = os.path.dirname(os.path.dirname(os.path.abspath(__file__)))
REPO = os.environ.get("VERIF_REPO") or os.environ.get("VP_RUN_REPO") or "/repo"
seeds = sorted(d for d in os.listdir(os.path.join(ROOT, "seeded")) if os.path.isdir(os.path.join(ROOT, "seeded", d)))
checks = sys.argv[1:] or [f"C{n:02d}" for n in range(1, 20)]
only = os.environ.get("SEEDS")
if only:
    seeds = [s for s in seeds if s in only.split(",")]
mpath = os.path.join(ROOT, "seeded", "MATRIX.json")
matrix = json.load(open(mpath)) if os.path.exists(mpath) else {}
os.environ["VERIF_EVIDENCE_DIR"] = "/tmp/seed-evidence"
os.environ["VERIF_REPLAY_DIR"] = "/tmp/seed-replays"
for s in seeds:
    patch = os.path.join(ROOT, "seeded", s, "patch.diff")
    if subprocess.run(["git", "-C", REPO, "apply", patch]).returncode != 0:
        matrix[s] = {"error": "patch does not apply"}
        continue
    row = matrix.get(s, {})
    try:
        # OWN_ONLY=1: only the check of the property the seed was made for (rows keep what earlier runs recorded for the others;
        # the result goes under the key "own@<commit>" as well, so that the table can tell which machinery produced it)
        own_only = os.environ.get("OWN_ONLY") == "1"
        for c in ([s[:3]] if own_only else checks):
            p = subprocess.run(["./check", c], cwd=ROOT, capture_output=True, text=True, timeout=2400)
            v = [l for l in p.stdout.splitlines() if l.startswith("VIOLATION")]
            if not v:
                row[c] = "-"
            elif v[0].endswith("no-failing-input-found"):
                row[c] = "tie"
            else:
                row[c] = "INPUT"
    finally:
        subprocess.run(["git", "-C", REPO, "checkout", "--", "."])
        subprocess.run([sys.executable, "-c", "from lib import core; core.translate()"], cwd=ROOT, capture_output=True)
    if os.environ.get("OWN_ONLY") == "1":
        row["own_final"] = row.get(s[:3])
    matrix[s] = row
    json.dump(matrix, open(mpath, "w"), indent=1)
    print(s, row, flush=True)
lines = ["| seed | breaks | needs | " + " | ".join(c[1:] for c in [f"C{n:02d}" for n in range(1, 20)]) + " |", "|---|---|---|" + "---|" * 19]
for s in sorted(matrix):
    meta = json.load(open(os.path.join(ROOT, "seeded", s, "meta.json")))
    row = matrix[s]
    cells = [{"INPUT": "**X**", "tie": "t", "-": "."}.get(row.get(f"C{n:02d}", " "), " ") for n in range(1, 20)]
    lines.append(f"| {s} | {meta.get('property')} | {meta.get('needs', '')[:110].replace('|', '/')} | " + " | ".join(cells) + " |")
open(os.path.join(ROOT, "seeded", "MATRIX.md"), "w").write(
    "Which quick checks report what on each seeded change (**X** = VIOLATION with a concrete failing input; t = VIOLATION ... no-failing-input-found, i.e. a proof obligation / tie broke but no case of that property fails; . = quiet)\n\n" + "\n".join(lines) + "\n")
