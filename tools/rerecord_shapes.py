#!/usr/bin/env python3
"""Re-record coq/Spec/FnShapes.v from the current coq/Gen/Shapes.v, keeping the groups and their function names.
ONLY to be run by a maintainer after the hand model has been compared again with the function bodies concerned (all
checks pass on the tree at hand): the recorded shapes are the statement 'the model was written against THESE bodies'."""
import re, sys
gen = open('/verif/coq/Gen/Shapes.v').read()
entries = re.findall(r'^  \(("(?:[^"]|"")*"), (\[.*?\])\)[;]?$', gen, re.M)
d = {n: b for n, b in entries}
spec = open('/verif/coq/Spec/FnShapes.v').read()
out = []
missing = []
def repl(m):
    name = m.group(1)
    if name not in d:
        missing.append(name)
        return m.group(0)
    return f'({name}, {d[name]})'
new = re.sub(r'\(("(?:[^"]|"")*"), (\[(?:"(?:[^"]|"")*"(?:; )?)*\])\)', repl, spec)
open('/verif/coq/Spec/FnShapes.v', 'w').write(new)
print('re-recorded; functions not found in Gen/Shapes.v:', missing)
