#!/bin/bash
# usage: seed_run.sh <patch.diff> <check ids...>   applies the patch to /repo, runs the quick checks, reverts
PATCH=$1; shift
cd /repo && git apply $PATCH || { echo "patch does not apply"; exit 2; }
cd /verif
export VERIF_EVIDENCE_DIR=/tmp/own-evidence VERIF_REPLAY_DIR=/tmp/own-replays
for p in "$@"; do
  out=$(timeout 1500 ./check $p 2>&1 | grep -E "VIOLATION|KNOWN-FINDING|Traceback" | head -3 | cut -c1-200)
  echo "$p exit=$? :: $out"
done
git -C /repo checkout -- . 
# regenerate coq/Gen from the restored tree so that no file derived from the mutated source is left behind
(cd /verif && python3 -c "from lib import core; core.translate()" >/dev/null)
git -C /repo status --short | head -3
