#!/usr/bin/env python3
"""Which lines / functions of /repo/src do the differential inputs of the 19 checks exercise?

Builds the harness with source-based coverage instrumentation (cargo +nightly, -C instrument-coverage), feeds it
the quick-tier case lines of every property (seed 1, all wire features + arbitrary) plus the corpora, merges the
profiles and writes coverage/REPORT.md (per file, and every function of ctap-types that was never entered).
This is a measurement of generator quality for the correspondence check; it decides nothing.
Scratch files go to /tmp/cov-* and are removed at the end."""
import glob, importlib, json, os, shutil, subprocess, sys
ROOT = os.path.dirname(os.path.dirname(os.path.abspath(__file__)))
sys.path.insert(0, ROOT)
from lib import core  # noqa: E402

FEATS = core.WIRE_FEATURES
TOOLS = glob.glob(os.path.expanduser("~/.rustup/toolchains/nightly-x86_64-*/lib/rustlib/x86_64-unknown-linux-gnu/bin"))[0]
TARGET = "/tmp/cov-target"
PROF = "/tmp/cov-prof"


def main():
    tier = sys.argv[1] if len(sys.argv) > 1 else "quick"
    core.translate()
    ok, msg = core.build_driver()
    assert ok, msg
    shutil.rmtree(PROF, ignore_errors=True)
    os.makedirs(PROF)
    # instrumented proc-macros write a profile when rustc runs them: keep those out of /repo and /verif
    env = dict(os.environ, CARGO_NET_OFFLINE="true", CARGO_TARGET_DIR=TARGET,
               RUSTFLAGS="-C instrument-coverage --cfg ctap_types_verif", LLVM_PROFILE_FILE="/tmp/cov-build-%p.profraw")
    r = subprocess.run(["cargo", "+nightly", "build", "--offline", "--features", ",".join(FEATS + ["arbitrary"])],
                       cwd=os.path.join(ROOT, "harness"), env=env, capture_output=True, text=True)
    assert r.returncode == 0, r.stderr[-2000:]
    exe = os.path.join(TARGET, "debug", "ctap-harness")
    for f in glob.glob("/tmp/cov-build-*.profraw"):
        os.remove(f)
    schema = core.load_schema(FEATS)
    total = 0
    per_prop = {}
    for n in range(1, 20):
        pid = f"C{n:02d}"
        prop = importlib.import_module(f"lib.props.c{n:02d}")
        rng = core.SplitMix(1).fork(pid)
        lines = list(prop.cases(tier, rng, schema, FEATS))
        cp = os.path.join(ROOT, "corpus", pid + ".txt")
        if os.path.exists(cp):
            for l in open(cp):
                l = l.rstrip("\n")
                if l and not l.startswith("#"):
                    lines.append(l.split("\t", 1)[1] if l.startswith("@") else l)
        per_prop[pid] = len(lines)
        total += len(lines)
        # shards of 400 lines so that an aborting input loses little
        for k in range(0, len(lines), 400):
            chunk = "\n".join(lines[k:k + 400]) + "\n"
            subprocess.run([exe], input=chunk, capture_output=True, text=True, timeout=600,
                           env=dict(os.environ, LLVM_PROFILE_FILE=os.path.join(PROF, f"{pid}-{k}-%p.profraw")))
    profs = glob.glob(os.path.join(PROF, "*.profraw"))
    subprocess.run([os.path.join(TOOLS, "llvm-profdata"), "merge", "-sparse", "-o", os.path.join(PROF, "all.profdata")] + profs, check=True)
    exp = subprocess.run([os.path.join(TOOLS, "llvm-cov"), "export", "-format=text", "-instr-profile", os.path.join(PROF, "all.profdata"), exe,
                          "-ignore-filename-regex", "(registry|rustc|harness)"], capture_output=True, text=True)
    data = json.loads(exp.stdout)["data"][0]
    out = ["# Coverage of /repo/src by the differential inputs of the 19 checks", "",
           f"tier={tier}, seed=1, features={'+'.join(FEATS)}+arbitrary, {total} case lines "
           f"({', '.join(f'{k}:{v}' for k, v in per_prop.items())}). Measured with `-C instrument-coverage` "
           "(rustc nightly), merged with llvm-profdata; a measurement of generator quality, not a verdict.", "",
           "| file | lines covered | functions entered | regions covered |", "|---|---|---|---|"]
    for f in sorted(data["files"], key=lambda x: x["filename"]):
        if "/repo/src/" not in f["filename"] and not f["filename"].startswith(core.REPO):
            continue
        s = f["summary"]
        out.append(f"| {f['filename'].split('/src/', 1)[-1]} | {s['lines']['covered']}/{s['lines']['count']} ({s['lines']['percent']:.0f}%) | "
                   f"{s['functions']['covered']}/{s['functions']['count']} | {s['regions']['covered']}/{s['regions']['count']} |")
    never = []
    seen = {}
    for fn in data["functions"]:
        files = [x for x in fn["filenames"] if "/src/" in x and ("/repo/" in x or x.startswith(core.REPO))]
        if not files:
            continue
        name = subprocess.run(["rustfilt"], input=fn["name"], capture_output=True, text=True).stdout.strip() if shutil.which("rustfilt") else fn["name"]
        key = (files[0], fn["regions"][0][0] if fn["regions"] else 0)
        seen[key] = max(seen.get(key, 0), fn["count"])
        if fn["count"] == 0:
            never.append((files[0].split("/src/", 1)[-1], fn["regions"][0][0] if fn["regions"] else 0, name))
    out += ["", "## Function instances never entered (file:line of the definition; generic functions appear once per instance)", ""]
    done = set()
    for f, line, name in sorted(never):
        if seen.get((next(k[0] for k in seen if k[0].endswith(f)), line), 0) > 0:
            continue  # some instance of it was entered
        if (f, line) in done:
            continue
        done.add((f, line))
        out.append(f"* {f}:{line}")
    os.makedirs(os.path.join(ROOT, "coverage"), exist_ok=True)
    open(os.path.join(ROOT, "coverage", "REPORT.md"), "w").write("\n".join(out) + "\n")
    print("\n".join(out[:40]))
    shutil.rmtree(PROF, ignore_errors=True)
    shutil.rmtree(TARGET, ignore_errors=True)


if __name__ == "__main__":
    main()
