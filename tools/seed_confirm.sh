#!/bin/bash
# usage: seed_confirm.sh <name> <dir with patch.diff, demo_*.rs, meta.json>
# Confirms in a scratch worktree that (1) the crate builds and its existing tests pass with the patch,
# (2) the demonstration fails with the patch, (3) passes without it.  Prints a JSON summary line.
set -u
NAME=$1; SRC=$2
WT=/tmp/confirm-$NAME
export CARGO_NET_OFFLINE=true CARGO_TARGET_DIR=/tmp/confirm-target
git -C /repo worktree remove --force $WT >/dev/null 2>&1
git -C /repo worktree add --detach $WT HEAD >/dev/null 2>&1 || { echo '{"error":"worktree"}'; exit 2; }
cd $WT
DEMO=$(ls $SRC/demo_*.rs | head -1)
cp $DEMO tests/
DN=$(basename $DEMO .rs)
FEAT=""
grep -q "get-info-full\|third-party-payment\|large-blobs" $SRC/meta.json && FEAT="--all-features"
# without the patch: demo passes
cargo test --offline $FEAT --test $DN >/tmp/confirm-$NAME.base.log 2>&1; BASE=$?
if [ $BASE -ne 0 ] && [ -z "$FEAT" ]; then cargo test --offline --all-features --test $DN >/tmp/confirm-$NAME.base.log 2>&1; BASE=$?; FEAT="--all-features"; fi
git apply $SRC/patch.diff; AP=$?
cargo build --offline >/dev/null 2>&1; B1=$?
cargo build --offline --all-features >/dev/null 2>&1; B2=$?
mv tests/$DN.rs /tmp/$DN.rs.hold
cargo test --offline >/tmp/confirm-$NAME.t1.log 2>&1; T1=$?
cargo test --offline --all-features >/tmp/confirm-$NAME.t2.log 2>&1; T2=$?
mv /tmp/$DN.rs.hold tests/$DN.rs
cargo test --offline $FEAT --test $DN >/tmp/confirm-$NAME.mut.log 2>&1; MUT=$?
if [ $MUT -eq 0 ]; then cargo test --offline --all-features --test $DN >/tmp/confirm-$NAME.mut.log 2>&1; MUT=$?; fi
if [ $MUT -eq 0 ]; then cargo test --offline --test $DN >/tmp/confirm-$NAME.mut.log 2>&1; MUT=$?; fi
echo "{\"name\":\"$NAME\",\"apply\":$AP,\"build\":$B1,\"build_all\":$B2,\"tests\":$T1,\"tests_all\":$T2,\"demo_without_patch\":$BASE,\"demo_with_patch\":$MUT,\"demo_features\":\"$FEAT\"}"
cd /; git -C /repo worktree remove --force $WT >/dev/null 2>&1
