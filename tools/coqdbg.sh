#!/bin/bash
# usage: coqdbg.sh <file.v> <line>   compiles the first <line> lines and shows the open goals there
cd /verif/coq
head -n $2 $1 > /tmp/Dbg.v; echo "Show." >> /tmp/Dbg.v
timeout ${3:-120} coqc -Q Model Ctap -Q Gen Ctap -Q Spec Ctap -Q Proofs Ctap -Q Obligations Ctap -Q Properties Ctap -Q Extract Ctap /tmp/Dbg.v 2>&1 | head -${4:-60}
rm -f /tmp/Dbg.vo /tmp/Dbg.glob /tmp/.Dbg.aux /tmp/Dbg.vok /tmp/Dbg.vos
