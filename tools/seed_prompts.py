#!/usr/bin/env python3
"""usage: seed_prompts.py <round dir, e.g. /tmp/r7> <C01 C04 ...>
Writes one prompt per property (only the property text; nothing from /verif) and creates a scratch worktree of /repo for each."""
import json, subprocess, sys
props = {json.loads(l)['id']: json.loads(l) for l in open('/verif/properties.jsonl')}
T = '''You are helping to evaluate a verification effort by producing ONE realistic, subtle code change ("seeded change") to a Rust crate that BREAKS a stated semantic property while the crate still compiles and its existing test suite still passes. You work ONLY inside your own scratch git worktree of the crate at __WT__ (a checkout of trussed-dev/ctap-types; do not touch /repo, do not look at or use /verif, do not use `git stash`, do not create commits). The machine is offline: use `cargo ... --offline`; set `export CARGO_TARGET_DIR=__WT__/target` so you do not contend with other builds (the machine is busy: builds may be slow, be patient).

The property (this is all you are given about what is being verified):

__PROP__

What to produce, in the directory __OUT__ (create it):
1. `patch.diff` — output of `git -C __WT__ diff` for your change to files under `src/` (and `Cargo.toml` only if really needed). One coherent change, the kind a maintainer might plausibly make by mistake in a refactor or "improvement". NOT a blatant sabotage, and NOT something any of the existing tests notice.
2. `demo___ID__.rs` — a self-contained integration test file (to be placed in `tests/`) that uses only the crate's public API and PASSES on the unmodified crate but FAILS with your change; it demonstrates a concrete input/value/feature configuration on which the property no longer holds. Say in a comment which cargo features it needs, if any (features: get-info-full, large-blobs, third-party-payment, std, arbitrary).
3. `meta.json` — {"property": "__PID__", "summary": "<what you changed and why it breaks the property>", "needs": "<what specific input / size / member combination / feature set is needed for the breakage to show>", "ran": ["<commands you ran and their outcome>"]}.

Requirements you must verify yourself before finishing:
- with the change: `cargo build --offline`, `cargo build --offline --all-features`, `cargo test --offline` and `cargo test --offline --all-features` all succeed (with your demo file NOT in tests/);
- with the change and the demo in tests/: `cargo test --offline [--all-features | --features ...] --test demo___ID__` FAILS;
- with the change reverted (`git apply -R`) and the demo in tests/: the same command PASSES.

IMPORTANT - make it HARD TO FIND. Earlier, more obvious changes of this kind (changed constants and capacities, off-by-one in a length check, reordered or cfg-gated struct fields, changed or added serde attributes (also inside cfg_attr), swapped arms of a lookup table, a different error conversion, an early return, a rewritten helper, a stale buffer, a check done modulo 256, a counter that overflows, a value 'tidied' by its DER/CBOR-declared length, a member gated by the wrong feature, a lossy intermediate buffer, a hand-written Serialize that miscounts, list entries skipped with IgnoredAny once a result is full, a debug_assert on a wrong belief, comparisons made case-insensitive or tolerant of padding, stripping of special Unicode characters, a forwarding impl that forgets a provided method, a trait brought into scope that shadows a method, a size computed in 16 bits, a guard on the total message or buffer length, names compared by length + hash digest, a nesting-depth limit, a copy of unknown names into a fixed log buffer, emoji- / language-tag-aware truncation loops, a capacity constant selected by cfg(feature = \"std\"), a generator that truncates text itself, arrays of integers accepted where a byte string is expected, an indefinite-length array on output, a short Le rejected, an up-front size estimate that counts a byte twice, a new enum variant whose two conversion tables disagree, a second hand-written conversion table next to the original, fixed-offset layouts that pad short values, deserialize_identifier accepting byte strings, an alias added to a member, an 'inconsistent command' guard in a forwarding impl, a non-terminating back-off loop, COSE algorithm aliases (-19 folded into -8), a lead-byte matcher that forgets 0xED, str::get(L..) used as a length test, a visitor that returns before consuming an entry, IgnoredAny for a member of an entry already known to be dropped, a status-word conversion that is not the identity, a size limit on an ignored member derived from a feature-dependent constant, refusing public keys over 256 bytes, members compared ignoring ASCII case, SELECT with the FIDO AID treated as a U2F instruction, DER signatures re-encoded, a serializer that checks only the last member's result, a request post-processed per command byte, trim_end_matches accepting a repeated suffix, icons starting with data: dropped) have all been detected already, as have changes to the bodies of the central encode / decode / dispatch functions themselves. So: (a) the breakage must need something SPECIFIC and RARE to manifest - one particular byte value or boundary size, one unusual but legal combination of members, one particular combination of cargo features, a value only reachable through a rarely used constructor or variant, an interaction between two members or two nesting levels, a particular ORDER of members on the wire - while the overwhelming majority of inputs, including the obvious boundary values, behave exactly as before; (b) prefer a mechanism in a less obvious place: a helper or conversion used indirectly, a trait impl (Default, From, PartialEq, Clone, Serialize / Deserialize of a nested type), a cfg condition combining two features, a builder, a type alias or constant used by a nested type, a macro; (c) it must still be a genuine violation of the property as stated, demonstrated by your demo. Spend your effort on the subtlety. When done, leave the worktree with the change applied and the demo file removed from tests/, and reply with a 5-line summary (what, where, what input shows it).
'''
rd = sys.argv[1]
subprocess.run(["mkdir", "-p", rd])
for pid in sys.argv[2:]:
    d = props[pid]
    wt = f"{rd}/{pid}"
    subprocess.run(["git", "-C", "/repo", "worktree", "remove", "--force", wt], capture_output=True)
    r = subprocess.run(["git", "-C", "/repo", "worktree", "add", "--detach", wt, "HEAD"], capture_output=True, text=True)
    txt = f"""PROPERTY {pid}: {d['title']}

Statement: {d['statement']}

Quantifier: {d['quantifier']['text']}

Anchors: files {', '.join(d['anchors']['files'])}; mechanisms: {'; '.join(m['name']+' @ '+m['where'] for m in d['anchors']['mechanism'])}
Observe at: {'; '.join(d['anchors'].get('observe_at',[]))}
"""
    p = T.replace("__WT__", wt).replace("__OUT__", f"{rd}/out-{pid}").replace("__PROP__", txt).replace("__ID__", pid.lower()).replace("__PID__", pid)
    open(f"{rd}/prompt-{pid}.txt", "w").write(p)
    print(pid, r.returncode)
