#!/bin/bash
# usage: seed_take.sh <Cxx> <suffix> <round>   copies /tmp/${RD:-r7}/out-Cxx to seeded/Cxx-<suffix>, confirms, runs own check
P=$1; S=$2; R=$3
D=/verif/seeded/$P-$S
mkdir -p $D && cp /tmp/${RD:-r7}/out-$P/* $D/
/verif/tools/seed_confirm.sh $P-$S $D | tee /tmp/confirm-$P-$S.json
python3 - <<PY
import json
p="$D/meta.json"
try: m=json.load(open(p))
except Exception: m={}
m["property"]="$P"; m["round"]=$R
try: m["confirmed_by"]=json.load(open("/tmp/confirm-$P-$S.json"))
except Exception as e: m["confirmed_by"]=str(e)
json.dump(m,open(p,"w"),indent=1)
PY
/verif/tools/seed_run.sh $D/patch.diff $P
